"""Generator additions made after the third round of independently seeded defects (DESIGN.md section 11).
Each function returns extra scenarios for one property; gens.py appends them."""
from .proto import *
from . import gens_big as GB


def cont(op):
    """the shim handles a refusal of this call and carries on with the same writer"""
    op = dict(op)
    op["cont"] = True
    return op


def by_ref(op):
    """the shim hands the value(s) over by reference: write_col(&v), write_row(&vec)"""
    op = dict(op)
    op["ref"] = True
    return op


def _refusable(rng, coldef):
    """a value that a binary column of this definition must refuse (or, for some, may refuse)"""
    ty, fl = coldef["ty"], coldef["fl"]
    if fl & F_NOT_NULL and rng.random() < 0.5:
        return rng.choice([v_none("u8"), v_none("str"), v_myc_null(), v_ref(v_none("i32"))])
    if ty in INT_TYPES or ty in (T_FLOAT, T_DOUBLE):
        return rng.choice([v_bytes(b"hi", "str"), v_date(2020, 2, 29), v_dur(5, 1)])
    if ty in (T_DATE, T_DATETIME, T_TIMESTAMP, T_TIME):
        return rng.choice([v_int("i32", 7), v_bytes(b"x", "bytes"), v_f64(f64_bits(1.5))])
    return rng.choice([v_int("i64", -1), v_f32(f32_bits(2.0)), v_date(1999, 12, 31)])


def _good(rng, coldef):
    ty, fl = coldef["ty"], coldef["fl"]
    if ty in INT_TYPES:
        return v_int("u8", rng.randint(0, 100)) if fl & F_UNSIGNED else v_int("i8", rng.randint(-100, 100))
    if ty == T_FLOAT:
        return v_f32(f32_bits(1.5))
    if ty == T_DOUBLE:
        return v_f64(f64_bits(-2.25))
    if ty == T_DATE:
        return v_date(2021, 3, 4)
    if ty in (T_DATETIME, T_TIMESTAMP):
        return v_datetime(2021, 3, 4, 5, 6, 7, 8)
    if ty == T_TIME:
        return v_dur(3661, 5)
    return v_bytes(bytes(rng.randint(97, 122) for _ in range(rng.randint(0, 6))), "str")


RECOVER_TYPES = [T_LONG, T_LONGLONG, T_TINY, T_VAR_STRING, T_BLOB, T_DOUBLE, T_DATETIME, T_TIME]


def recover_convs(rng, n, prefix, binary_choices=(True,), endings=None):
    """A shim that HANDLES a refused write_col instead of propagating it with `?`: it substitutes a value,
    gives the row up and finishes, reports an error to the client, or drops the writer.  The refused call
    must have left nothing behind (C03/C07/C13)."""
    out = []
    endings = endings or ["retry", "retry", "finish", "finish_error", "finish_one", "drop", "end_row", "retry_twice"]
    for i in range(n):
        binary = binary_choices[i % len(binary_choices)]
        ncol = [1, 2, 3, 5, 9][i % 5]
        cols = []
        for j in range(ncol):
            ty = rng.choice(RECOVER_TYPES)
            fl = (F_NOT_NULL if rng.random() < 0.5 else 0) | (F_UNSIGNED if ty in INT_TYPES and rng.random() < 0.3 else 0)
            cols.append(col("c%d" % j, ty, fl))
        at = [0, ncol - 1, rng.randrange(ncol)][(i // 5) % 3]       # the column whose first value is refused
        good_rows_before = (i // 15) % 2
        ending = endings[i % len(endings)]
        ops = [op_start(cols)]
        for _ in range(good_rows_before):
            ops.append(op_write_row([_good(rng, cd) for cd in cols]))
        for j in range(at):
            ops.append(op_write_col(_good(rng, cols[j])))
        bad = _refusable(rng, cols[at]) if binary else None
        if binary:
            ops.append(cont(op_write_col(bad)))
            if ending == "retry_twice":
                ops.append(cont(op_write_col(_refusable(rng, cols[at]))))
        if ending in ("retry", "retry_twice") or not binary:
            for j in range(at, ncol):
                ops.append(op_write_col(_good(rng, cols[j])))
            if binary and at == ncol - 1 and i % 4 == 0:
                # one more cell than declared: refused and handled as well
                ops.append(cont(op_write_col(_good(rng, cols[0]))))
            ops.append(op_end_row())
            ops.append(op_write_row([_good(rng, cd) for cd in cols]))
            ops.append(op_finish())
        elif ending == "finish":
            # gives the row up: with cells pending the finish is refused (and propagated), with none it succeeds
            ops.append(op_finish())
        elif ending == "finish_error":
            ops.append(op_finish_error(rng.choice(["ER_TRUNCATED_WRONG_VALUE", "ER_BAD_NULL_ERROR", "ER_UNKNOWN_ERROR"]), b"value refused"))
        elif ending == "finish_one":
            ops += [op_finish_one(), op_completed(3, 4)]
        elif ending == "drop":
            ops.append(op_drop())
        elif ending == "end_row":
            ops += [op_end_row(), op_finish()]
        c = Conv("%s-%03d" % (prefix, i), mode=["lockstep", "pipelined"][i % 2], meta={"ending": ending, "at": at, "binary": binary})
        if binary:
            c.prepare("S", prep_ok(1, [], cols))
            c.execute(1, [], ops)
        else:
            c.query(b"SELECT recover", ops)
        c.ping()
        c.query(b"after", [op_completed(1, 0)])
        c.quit()
        out.append(c.build())
    return out


def c03_extra(rng, tier):
    q = tier == "quick"
    return recover_convs(rng, 32 if q else 320, "C03-recover")


def c07_extra(rng, tier):
    q = tier == "quick"
    return recover_convs(rng, 48 if q else 480, "C07-recover")


def c13_extra(rng, tier):
    q = tier == "quick"
    return recover_convs(rng, 12 if q else 120, "C13-recover", endings=["finish_error"])
