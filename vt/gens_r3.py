"""Generator additions made after the third round of independently seeded defects (DESIGN.md section 11).
Each function returns extra scenarios for one property; gens.py appends them."""
from .proto import *
from . import gens_big as GB


def cont(op):
    """the shim handles a refusal of this call and carries on with the same writer"""
    op = dict(op)
    op["cont"] = True
    return op


def by_ref(op):
    """the shim hands the value(s) over by reference: write_col(&v), write_row(&vec)"""
    op = dict(op)
    op["ref"] = True
    return op


def _refusable(rng, coldef):
    """a value that a binary column of this definition must refuse (or, for some, may refuse)"""
    ty, fl = coldef["ty"], coldef["fl"]
    if fl & F_NOT_NULL and rng.random() < 0.5:
        return rng.choice([v_none("u8"), v_none("str"), v_myc_null(), v_ref(v_none("i32"))])
    if ty in INT_TYPES or ty in (T_FLOAT, T_DOUBLE):
        return rng.choice([v_bytes(b"hi", "str"), v_date(2020, 2, 29), v_dur(5, 1)])
    if ty in (T_DATE, T_DATETIME, T_TIMESTAMP, T_TIME):
        return rng.choice([v_int("i32", 7), v_bytes(b"x", "bytes"), v_f64(f64_bits(1.5))])
    return rng.choice([v_int("i64", -1), v_f32(f32_bits(2.0)), v_date(1999, 12, 31)])


def _good(rng, coldef):
    ty, fl = coldef["ty"], coldef["fl"]
    if ty in INT_TYPES:
        return v_int("u8", rng.randint(0, 100)) if fl & F_UNSIGNED else v_int("i8", rng.randint(-100, 100))
    if ty == T_FLOAT:
        return v_f32(f32_bits(1.5))
    if ty == T_DOUBLE:
        return v_f64(f64_bits(-2.25))
    if ty == T_DATE:
        return v_date(2021, 3, 4)
    if ty in (T_DATETIME, T_TIMESTAMP):
        return v_datetime(2021, 3, 4, 5, 6, 7, 8)
    if ty == T_TIME:
        return v_dur(3661, 5)
    return v_bytes(bytes(rng.randint(97, 122) for _ in range(rng.randint(0, 6))), "str")


RECOVER_TYPES = [T_LONG, T_LONGLONG, T_TINY, T_VAR_STRING, T_BLOB, T_DOUBLE, T_DATETIME, T_TIME]


def recover_convs(rng, n, prefix, binary_choices=(True,), endings=None):
    """A shim that HANDLES a refused write_col instead of propagating it with `?`: it substitutes a value,
    gives the row up and finishes, reports an error to the client, or drops the writer.  The refused call
    must have left nothing behind (C03/C07/C13)."""
    out = []
    endings = endings or ["retry", "retry", "finish", "finish_error", "finish_one", "drop", "end_row", "retry_twice", "endrow_retry"]
    for i in range(n):
        binary = binary_choices[i % len(binary_choices)]
        ncol = [1, 2, 3, 5, 9][i % 5]
        cols = []
        for j in range(ncol):
            ty = rng.choice(RECOVER_TYPES)
            fl = (F_NOT_NULL if rng.random() < 0.5 else 0) | (F_UNSIGNED if ty in INT_TYPES and rng.random() < 0.3 else 0)
            cols.append(col("c%d" % j, ty, fl))
        at = [0, ncol - 1, rng.randrange(ncol)][(i // 5) % 3]       # the column whose first value is refused
        good_rows_before = (i // 15) % 2
        ending = endings[i % len(endings)]
        ops = [op_start(cols)]
        for _ in range(good_rows_before):
            ops.append(op_write_row([_good(rng, cd) for cd in cols]))
        for j in range(at):
            ops.append(op_write_col(_good(rng, cols[j])))
        bad = _refusable(rng, cols[at]) if binary else None
        if binary:
            ops.append(cont(op_write_col(bad)))
            if ending == "retry_twice":
                ops.append(cont(op_write_col(_refusable(rng, cols[at]))))
        if ending in ("retry", "retry_twice") or not binary:
            for j in range(at, ncol):
                ops.append(op_write_col(_good(rng, cols[j])))
            if binary and at == ncol - 1 and i % 4 == 0:
                # one more cell than declared: refused and handled as well
                ops.append(cont(op_write_col(_good(rng, cols[0]))))
            ops.append(op_end_row())
            ops.append(op_write_row([_good(rng, cd) for cd in cols]))
            ops.append(op_finish())
        elif ending == "finish":
            # gives the row up: with cells pending the finish is refused (and propagated), with none it succeeds
            ops.append(op_finish())
        elif ending == "finish_error":
            ops.append(op_finish_error(rng.choice(["ER_TRUNCATED_WRONG_VALUE", "ER_BAD_NULL_ERROR", "ER_UNKNOWN_ERROR"]), b"value refused"))
        elif ending == "finish_one":
            ops += [op_finish_one(), op_completed(3, 4)]
        elif ending == "drop":
            ops.append(op_drop())
        elif ending == "end_row":
            ops += [op_end_row(), op_finish()]
        elif ending == "endrow_retry":
            # the row is one cell short when end_row is called; the shim handles the refusal, supplies the
            # missing cells and ends the row again
            ops.append(cont(op_end_row()))
            for j in range(at, ncol):
                ops.append(op_write_col(_good(rng, cols[j])))
            ops += [op_end_row(), op_finish()]
        c = Conv("%s-%03d" % (prefix, i), mode=["lockstep", "pipelined"][i % 2], meta={"ending": ending, "at": at, "binary": binary})
        if binary:
            c.prepare("S", prep_ok(1, [], cols))
            c.execute(1, [], ops)
        else:
            c.query(b"SELECT recover", ops)
        c.ping()
        c.query(b"after", [op_completed(1, 0)])
        c.quit()
        out.append(c.build())
    return out


def c03_extra(rng, tier):
    q = tier == "quick"
    return recover_convs(rng, 32 if q else 320, "C03-recover")


def c07_extra(rng, tier):
    q = tier == "quick"
    return recover_convs(rng, 48 if q else 480, "C07-recover")


def c13_extra(rng, tier):
    q = tier == "quick"
    return recover_convs(rng, 12 if q else 120, "C13-recover", endings=["finish_error"])


# ------------------------------------------------------------------------------------------------
def c01_extra(rng, tier):
    out = []
    # commands of five and more maximal fragments (> 80 MiB), with a second command pipelined behind
    for i, (a, d) in enumerate([(5, 100)] if tier == "quick" else [(5, 100), (5, 0), (6, 3), (8, 1)]):
        n = a * GB.PM + d
        c = GB.BigConv("C01-frag%d-%+d" % (a, d), mode="pipelined", meta={"a": a, "d": d})
        c.cmd_runs(GB.canon([[3, 1]] + GB.pattern_ascii(n - 1, i)), 0)
        c.programs.append([op_completed(1, 0)])
        c.small(com_query("after the giant"))
        c.programs.append([op_completed(2, 0)])
        c.small(com_ping())
        c.small(com_quit())
        out.append(c.build())
    # COM_INIT_DB carries the schema name verbatim, whatever characters it is made of
    names = [b"`db`", b"db;", b" db ", b"\tdb\n", b"``", b";", b"a`b", b"`a;b` ;", b"db name", b"  ", b"x" * 300]
    for i in range(0, len(names), 4):
        c = Conv("C01-initdb-%d" % i, mode=["lockstep", "pipelined"][(i // 4) % 2])
        for nm in names[i:i + 4]:
            c.init_db(nm, [op_init_ok()])
        c.chunks, c.then = [3, 1, 2, 7], 5
        c.ping()
        c.quit()
        out.append(c.build())
    return out


def c02_extra(rng, tier):
    out = []
    names = [b"`db`", b"db;", b" db ", b"``", b"a`b", b"db name", b"d\xc3\xa9j\xc3\xa0`;"]
    c = Conv("C02-initdb-verbatim", mode="pipelined")
    for nm in names:
        c.init_db(nm, [op_init_ok()])
    c.ping()
    c.quit()
    out.append(c.build())
    return out


def c03_wide(rng, tier):
    """binary rows whose column count sits at a NULL-bitmap byte boundary, NULLs in the last columns"""
    out = []
    for i, ncol in enumerate([6, 7, 8, 9, 14, 15, 16, 17, 22, 23, 24, 25]):
        cols = [col("c%d" % j, [T_LONG, T_VAR_STRING, T_TINY][j % 3]) for j in range(ncol)]

        def row(nulls):
            return [v_none("u8") if j in nulls else (v_int("i32", 1000 + j) if j % 3 == 0 else v_bytes(bytes([97 + j % 26]) * (j % 4 + 1), "str") if j % 3 == 1 else v_int("i8", j))
                    for j in range(ncol)]
        ops = [op_start(cols), op_write_row(row(set())), op_write_row(row({ncol - 1})), op_write_row(row({ncol - 2})),
               op_write_row(row({ncol - 2, ncol - 1, 0})), op_write_row(row(set(range(ncol)))), op_finish()]
        c = Conv("C03-wide3-%02d" % ncol, mode=["lockstep", "pipelined"][i % 2])
        c.prepare("S", prep_ok(1, [], cols))
        c.execute(1, [], ops)
        c.ping()
        c.quit()
        out.append(c.build())
    return out


def c04_extra(rng, tier):
    out = []
    # a binary row whose values exceed 16 MiB, with NULLs and small values AFTER the giant one
    shapes = [("big_small_null", lambda b: [b, GB.vbig(GB.pattern(5, 1)), GB.vnull()]),
              ("big_null", lambda b: [b, GB.vnull()]),
              ("null_big_null_small", lambda b: [GB.vnull(), b, GB.vnull(), GB.vbig(GB.pattern(9, 2))])]
    for i, (name, mk) in enumerate(shapes):
        for k, n in enumerate([GB.PM + 5, 2 * GB.PM - 20] if tier != "quick" else [GB.PM + 5]):
            vals = mk(GB.vbig(GB.pattern(n, i + k)))
            cols = [GB.rcol("c%d" % j) for j in range(len(vals))]
            c = GB.BigConv("C04-binnull-%s-%d" % (name, k), mode="lockstep")
            c.small(com_prepare("S"))
            c.prepares.append({"id": le4(1), "params": [], "cols": []})
            c.small(com_execute(1, []))
            c.programs.append([op_start(cols), op_write_row(vals), op_write_row([GB.vbig(GB.pattern(3, j)) for j in range(len(vals))]), op_finish()])
            c.small(com_ping())
            c.small(com_quit())
            out.append(c.build())
    # a row of exactly k*(2^24-1) bytes that is ended implicitly (finish / finish_one / finish_error / drop)
    for i, ending in enumerate(["finish", "finish_one", "finish_error", "drop"]):
        n = GB.cell_len_for_total(GB.PM)
        c = GB.BigConv("C04-exact-implicit-%s" % ending, mode="lockstep")
        c.small(com_query("Q"))
        ops = [op_start([GB.rcol("a")]), op_write_col(GB.vbig(GB.pattern(n, i)))]
        if ending == "finish":
            ops.append(op_finish())
        elif ending == "finish_one":
            ops += [op_finish_one(), op_completed(1, 2)]
        elif ending == "finish_error":
            ops.append({"op": "finish_error", "kind": "ER_NO", "msg": GB.lit(b"late")})
        else:
            ops.append(op_drop())
        c.programs.append(ops)
        c.small(com_ping())
        c.small(com_quit())
        out.append(c.build())
    return out


def c05_extra(rng, tier):
    from .gens import tls_conv
    out = []
    for i, (auth, mode) in enumerate([("accept", "lockstep"), ("reject", "lockstep"), ("accept", "pipelined"), ("reject", "pipelined")]):
        c = tls_conv("C05-tls-%s-%d" % (auth, i), rng, mode=mode, auth=auth, ncmd=3 if auth == "accept" else 1)
        out.append(c.build())
    return out


def c06_extra(rng, tier):
    out = []
    # a giant row that is not a multiple of 2^24-1, followed by another resultset on the same connection
    for i, total in enumerate([GB.PM + 300] if tier == "quick" else [GB.PM + 300, 2 * GB.PM + 1]):
        c = GB.BigConv("C06-bigthen-%d" % i, mode="lockstep")
        n = GB.cell_len_for_total(total)
        c.small(com_query("Q1"))
        c.programs.append([op_start([GB.rcol("a")]), op_write_row([GB.vbig(GB.pattern(n, i))]), op_finish()])
        c.small(com_query("Q2"))
        c.programs.append([op_start([GB.rcol("a"), GB.rcol("b")]), op_write_row([GB.vbig(GB.pattern(7, 1)), GB.vnull()]),
                           op_write_row([GB.vbig(GB.pattern(0, 1)), GB.vbig(GB.lit(b"NULL"))]), op_finish()])
        c.small(com_ping())
        c.small(com_quit())
        out.append(c.build())
    # a transport that accepts only part of each write (io::Write allows it): rows larger than one write
    for i, sw in enumerate([[16384], [1000, 1], [4096, 3, 70000], [65536]]):
        c = Conv("C06-shortwr-%d" % i, mode=["lockstep", "pipelined"][i % 2])
        c.short_writes = sw
        cols = [col("a", T_VAR_STRING), col("b", T_LONGLONG), col("c", T_BLOB)]
        big = bytes((j * 7 + i) % 256 for j in range(70000))
        c.query("Q", [op_start(cols),
                      op_write_row([v_bytes(b"x", "str"), v_int("i64", -2 ** 63), v_none("str")]),
                      op_write_row([v_none("u8"), v_int("i64", 5), v_bytes(big, "vec")]),
                      op_write_row([v_bytes(b"NULL", "str"), v_int("i64", 2 ** 63 - 1), v_bytes(b"", "bytes")]),
                      op_finish()])
        c.query("Q2", [op_start(cols[:2]), op_write_row([v_bytes(b"after", "str"), v_int("i64", 1)]), op_finish()])
        c.ping()
        c.quit()
        out.append(c.build())
    # chains: rows, finish_one, then a completion / another resultset / an error
    for i, tail in enumerate(["completed", "start", "error", "complete_one"]):
        cols = [col("a", T_VAR_STRING)]
        rows = [op_write_row([v_bytes(b"x", "str")]), op_write_row([v_none("str")]), op_write_row([v_bytes(b"", "str")]), op_write_row([v_bytes(b"NULL", "str")])]
        ops = [op_start(cols)] + rows + [op_finish_one()]
        if tail == "completed":
            ops.append(op_completed(3, 9))
        elif tail == "start":
            ops += [op_start(cols), op_write_row([v_bytes(b"second", "str")]), op_finish()]
        elif tail == "error":
            ops.append(op_error("ER_NO", b"late"))
        else:
            ops += [op_complete_one(1, 1), op_no_more_results()]
        c = Conv("C06-chain-%s" % tail, mode=["lockstep", "pipelined"][i % 2])
        c.query("Q", ops)
        c.ping()
        c.quit()
        out.append(c.build())
    # column flags do not matter in the text protocol: a NULL in a NOT NULL-flagged column still arrives as NULL
    for i, ty in enumerate([T_LONG, T_VAR_STRING, T_DATETIME, T_DOUBLE]):
        cols = [col("k", ty, F_NOT_NULL), col("v", T_VAR_STRING, F_NOT_NULL | 2), col("w", T_BLOB)]
        c = Conv("C06-notnull-%d" % i, mode="lockstep")
        c.query("Q", [op_start(cols), op_write_row([v_none("u8"), v_myc_null(), v_none("str")]),
                      op_write_col(v_int("i32", 7)), op_write_col(v_none("str")), op_write_col(v_bytes(b"NULL", "str")), op_end_row(), op_finish()])
        c.ping()
        c.quit()
        out.append(c.build())
    # durations with a sub-microsecond part (TIME has microsecond precision: truncated or rounded, never malformed)
    cases = []
    dummy = col("x", T_VAR_STRING)
    tcol = col("t", T_TIME)
    for secs in [0, 1, 59, 3599, 86399, 86400]:
        for us, ns in [(0, 1), (0, 499), (0, 500), (0, 999), (999999, 1), (999999, 499), (999999, 500), (999999, 999), (5, 500), (123456, 789)]:
            cases.append({"v": v_dur_ns(secs, us, ns), "col": dummy, "mode": "text"})
            cases.append({"v": v_dur_ns(secs, us, ns), "col": tcol, "mode": "bin"})
    out.append({"id": "C06-durns", "kind": "encode", "cases": cases})
    return out


def v_dur_ns(secs, us, ns):
    """Duration::new(secs, us*1000 + ns): the client may see it truncated or rounded to microseconds"""
    total_us = secs * 1000000 + us
    rounded = total_us + (1 if ns >= 500 else 0)
    return {"k": "dur", "v": [secs, us, ns], "c": {"t": "time", "v": [secs, us], "alt": [rounded // 1000000, rounded % 1000000]}}


def c07_wide(rng, tier):
    """more than 250 columns (the column count needs the 0xFC form), NULL patterns at both ends"""
    out = []
    for i, ncol in enumerate([250, 251, 252, 300] if tier == "quick" else [250, 251, 252, 255, 256, 300, 1000]):
        cols = [col("c%d" % j, T_LONG if j % 2 else T_VAR_STRING) for j in range(ncol)]

        def row(nulls):
            return [v_none("u8") if j in nulls else (v_int("i32", j - 7) if j % 2 else v_bytes(b"s%d" % j, "str")) for j in range(ncol)]
        c = Conv("C07-wide3-%d" % ncol, mode="lockstep")
        c.prepare("S", prep_ok(1, [], cols))
        c.execute(1, [], [op_start(cols), op_write_row(row(set())), op_write_row(row({0, ncol - 1})), op_write_row(row({5, 6, 7, 8, ncol - 2})), op_finish()])
        c.ping()
        c.quit()
        out.append(c.build())
    # a MYSQL_TYPE_NULL column carries nothing but NULL
    from .gens import all_value_kinds
    cases = []
    for v in all_value_kinds(rng):
        if v["c"]["t"] != "null":
            cases.append({"v": v, "col": col("n", T_NULL), "mode": "bin"})
    out.append({"id": "C07-nullcol-enc", "kind": "encode", "cases": cases})
    cols = [col("a", T_LONG), col("n", T_NULL), col("b", T_VAR_STRING)]
    c = Conv("C07-nullcol", mode="lockstep")
    c.prepare("S", prep_ok(1, [], cols))
    c.execute(1, [], [op_start(cols), op_write_row([v_int("i32", 1), v_none("u8"), v_bytes(b"x", "str")]),
                      op_write_col(v_int("i32", 2)), cont(op_write_col(v_int("i32", 5))), op_write_col(v_myc_null()), op_write_col(v_bytes(b"y", "str")), op_end_row(), op_finish()])
    c.ping()
    c.quit()
    out.append(c.build())
    # datetimes at midnight with microseconds, and the other length forms of the binary encoding
    cases = []
    for ty in (T_DATETIME, T_TIMESTAMP):
        for (h, mi, s, us) in [(0, 0, 0, 0), (0, 0, 0, 1), (0, 0, 0, 123), (0, 0, 0, 999999), (0, 0, 1, 0), (0, 1, 0, 0), (1, 0, 0, 0), (0, 0, 1, 5), (23, 59, 59, 999999)]:
            for (y, m, d) in [(2020, 2, 29), (1, 1, 1), (9999, 12, 31)]:
                cases.append({"v": v_datetime(y, m, d, h, mi, s, us), "col": col("d", ty), "mode": "bin"})
                cases.append({"v": v_myc_date(y, m, d, h, mi, s, us), "col": col("d", ty), "mode": "bin"})
    for (secs, us) in [(0, 0), (0, 1), (0, 999999), (1, 0), (86400, 0), (86400, 7), (3020399, 999999)]:
        cases.append({"v": v_dur(secs, us), "col": col("t", T_TIME), "mode": "bin"})
    out.append({"id": "C07-dtforms-enc", "kind": "encode", "cases": cases})
    return out


# ------------------------------------------------------------------------------------------------
def c08_extra(rng, tier):
    """the flags byte and the iteration count of COM_STMT_EXECUTE carry nothing this server negotiated:
    whatever they hold, the parameter block starts right behind them"""
    from .gens import rand_param
    out = []
    flagsets = [0x00, 0x01, 0x02, 0x04, 0x08, 0x09, 0x10, 0x80, 0xff]
    for i, fl in enumerate(flagsets):
        c = Conv("C08-flags-%02x" % fl, mode=["lockstep", "pipelined"][i % 2])
        ps = [p_int(T_TINY, 5), p_int(T_LONG, 1234567), p_bytes(T_VAR_STRING, b"abc"), p_null(T_LONG)]
        c.prepare("S", prep_ok(1, [col("p%d" % k, p["ty"]) for k, p in enumerate(ps)], []))
        c.cmd(com_execute(1, ps, True, flags=fl, iterations=[1, 0, 7, 2 ** 32 - 1][i % 4]))
        c.programs.append([op_completed(1, 0)])
        ps2 = [rand_param(rng, p["ty"], allow_null=False) for p in ps]
        c.cmd(com_execute(1, ps2, False, flags=fl))
        c.programs.append([op_completed(2, 0)])
        c.prepare("T", prep_ok(2, [col("q", T_LONGLONG)], []))
        c.cmd(com_execute(2, [p_int(T_LONGLONG, -9)], True, flags=fl))
        c.programs.append([op_completed(3, 0)])
        c.ping()
        c.quit()
        out.append(c.build())
    return out


def c10_extra(rng, tier):
    out = []
    # long data for a statement that is closed without ever being executed; the id (or another one) is then
    # prepared again: nothing of the old incarnation may show up
    for i, (a, b_) in enumerate([(1, 1), (1, 2), (7, 7), (2 ** 32 - 1, 3)]):
        c = Conv("C10-closepend-%d" % i, mode=["lockstep", "pipelined"][i % 2])
        c.prepare("A", prep_ok(a, [col("p", T_BLOB)], []))
        c.cmd(com_long_data(a, 0, b"stale"))
        c.cmd(com_close(a))
        c.prepare("B", prep_ok(b_, [col("p", T_BLOB), col("q", T_LONG)], []))
        c.execute(b_, [p_bytes(T_BLOB, b"fresh"), p_int(T_LONG, 3)], [op_completed(1, 0)])
        c.execute(b_, [p_bytes(T_BLOB, b"again"), p_int(T_LONG, 4)], [op_completed(2, 0)], rebind=False)
        c.ping()
        c.quit()
        out.append(c.build())
    # several open statements; one that is not the highest id is closed; all others stay usable
    for i, ids in enumerate([[1, 2, 3, 4], [5, 1, 9, 3, 7], [2 ** 32 - 1, 1, 2], [10, 20, 30, 40, 50, 60]]):
        for close_at in ([0, 1] if tier == "quick" else range(len(ids) - 1)):
            c = Conv("C10-many-%d-%d" % (i, close_at), mode="lockstep")
            for s in ids:
                c.prepare("S%d" % s, prep_ok(s, [col("p", T_LONG)], []))
            c.cmd(com_close(sorted(ids)[close_at]))
            for s in sorted(ids, reverse=True):
                if s != sorted(ids)[close_at]:
                    c.execute(s, [p_int(T_LONG, s % 1000)], [op_completed(1, 0)])
                    c.cmd(com_long_data(s, 0, b"ld"))
            c.ping()
            c.quit()
            out.append(c.build())
    # the id 0xFFFFFFFF is an id like any other: unknown until prepared, and then only itself
    c = Conv("C10-maxid-unknown", mode="lockstep")
    c.prepare("S", prep_ok(5, [col("p", T_LONG)], []))
    c.execute(5, [p_int(T_LONG, 1)], [op_completed(1, 0)])
    c.cmd(com_execute(2 ** 32 - 1, [p_int(T_LONG, 2)]))
    out.append(c.build())
    c = Conv("C10-maxid-longdata", mode="lockstep")
    c.prepare("S", prep_ok(5, [col("p", T_BLOB)], []))
    c.cmd(com_long_data(2 ** 32 - 1, 0, b"x"))
    c.ping()
    out.append(c.build())
    c = Conv("C10-maxid-own", mode="lockstep")
    c.prepare("S", prep_ok(2 ** 32 - 1, [col("p", T_LONG)], []))
    c.prepare("T", prep_ok(6, [col("a", T_BLOB), col("b", T_BLOB)], []))
    c.execute(2 ** 32 - 1, [p_int(T_LONG, 77)], [op_completed(1, 0)])
    c.cmd(com_long_data(6, 1, b"for six"))
    c.execute(2 ** 32 - 1, [p_int(T_LONG, 78)], [op_completed(2, 0)], rebind=False)
    c.execute(6, [p_bytes(T_BLOB, b"a"), p_long(T_BLOB)], [op_completed(3, 0)])
    c.cmd(com_close(2 ** 32 - 1))
    c.execute(6, [p_bytes(T_BLOB, b"b"), p_bytes(T_BLOB, b"c")], [op_completed(4, 0)])
    c.ping()
    c.quit()
    out.append(c.build())
    return out


def c13_hs(rng, tier):
    """errors reach clients of every handshake layout in the same (4.1) form"""
    out = []
    kinds = ["ER_NO", "ER_PARSE_ERROR", "ER_BAD_DB_ERROR", "ER_DUP_ENTRY"]
    for i, hs in enumerate([handshake320(b"old"), handshake320(b"", caps=0x0001), handshake41(b"new", caps=0x0200), handshake41(b"x", caps=0xa200 | 0x8)]):
        c = Conv("C13-hs-%d" % i, mode="lockstep", hs=hs)
        c.query("Q", [op_error(kinds[i % 4], b"first")])
        c.prepare("P", prep_err(kinds[(i + 1) % 4], b"second"))
        c.init_db("db", [op_init_err(kinds[(i + 2) % 4], b"third")])
        c.query("R", [op_start([col("a", T_LONG)]), op_write_row([v_int("i32", 1)]), op_finish_error(kinds[(i + 3) % 4], b"fourth")])
        c.ping()
        c.quit()
        out.append(c.build())
    return out


def c17_extra(rng, tier):
    """long data far beyond 64 MiB over the lifetime of one statement, never more than one chunk pending"""
    out = []
    c = GB.BigConv("C17-lifetime", mode="lockstep")
    c.small(com_prepare("S"))
    c.prepares.append({"id": le4(4), "params": [GB.rcol("p"), GB.rcol("q", T_LONG)], "cols": []})
    for k in range(6 if tier == "quick" else 12):
        n = GB.PM - 7 - 100 + k          # one maximal packet each
        c.cmd_runs(GB.canon([[x, 1] for x in [0x18] + le4(4) + [0, 0]] + GB.pattern(n, k)), 0, reply=False)
        c.small(com_execute(4, [p_long(T_BLOB), p_int(T_LONG, k)], rebind=(k == 0)))
        c.programs.append([op_completed(k, 0)])
    c.small(com_ping())
    c.small(com_quit())
    out.append(c.build())
    return out


def c18_extra(rng, tier):
    """client certificate chains of more than one certificate"""
    from .gens import tls_conv
    out = []
    for i, n in enumerate([2, 3]):
        for mode in ("lockstep", "pipelined"):
            c = tls_conv("C18-chain%d-%s" % (n, mode), rng, mode=mode, cert=True, server_cert_req=True, ncmd=2)
            sc = c.build()
            sc["client"]["cert_chain"] = n
            out.append(sc)
    return out


def c19_flush_faults(probe):
    """a response of more than 255 packets: a one-off failure of every single flush must be reported"""
    out = []
    c = Conv("C19-wrap", mode="lockstep")
    cols = [col("a", T_LONG)]
    c.query("Q", [op_start(cols)] + [op_write_row([v_int("i32", r)]) for r in range(300)] + [op_finish()])
    c.ping()
    c.quit()
    base = c.build()
    counts = probe([base])[base["id"]]
    import copy
    for k in range(counts["fl"] + 2):
        for kind in ("oneoff", "persistent"):
            s2 = copy.deepcopy(base)
            s2["id"] = "C19-wrap-fl-%s-%d" % (kind[0], k)
            s2["transport"]["fault"] = {"on": "flush", "at": k, "kind": kind, "err": "BrokenPipe"}
            s2["meta"] = {"conv": base["id"], "fault": kind, "at": k}
            out.append(s2)
    return [base] + out


def _lenenc_bytes(n):
    if n < 251:
        return [n]
    if n < 65536:
        return [252, n & 255, n >> 8]
    if n < (1 << 24):
        return [253, n & 255, (n >> 8) & 255, n >> 16]
    return [254] + [(n >> (8 * k)) & 255 for k in range(8)]


def big_execute(stmt, params):
    """payload runs of a COM_STMT_EXECUTE with new-params-bound = 1; params: ('blob', runs) | ('long', int) | ('null',)"""
    np_ = len(params)
    bl = (np_ + 7) // 8
    nullmap = [0] * bl
    types = []
    vals = []
    for j, p in enumerate(params):
        if p[0] == 'null':
            nullmap[j // 8] |= 1 << (j % 8)
            types += [T_BLOB, 0]
        elif p[0] == 'blob':
            types += [T_BLOB, 0]
            vals += [[x, 1] for x in _lenenc_bytes(GB.runs_len(p[1]))] + [list(r) for r in p[1]]
        else:
            types += [T_LONG, 0]
            vals += [[x, 1] for x in le4(p[1])]
    head = [0x17] + le4(stmt) + [0] + le4(1) + nullmap + [1] + types
    return GB.canon([[x, 1] for x in head] + vals)


def c08_big(rng, tier):
    """inline parameters of 2^24 bytes and more (a multi-packet COM_STMT_EXECUTE): delivered intact, with the
    parameters behind them"""
    out = []
    shapes = [[('blob', GB.pattern(1 << 24, 1)), ('long', 42)],
              [('long', 7), ('blob', GB.pattern((1 << 24) - 1, 2)), ('null',), ('blob', GB.pattern(3, 3))],
              [('blob', GB.pattern(5, 4)), ('blob', GB.pattern((1 << 24) + 70000, 5))]]
    if tier != "quick":
        shapes.append([('blob', GB.pattern(2 * GB.PM + 11, 6)), ('long', -1 & 0xffffffff)])
    for i, ps in enumerate(shapes):
        c = GB.BigConv("C08-biginline-%d" % i, mode=["lockstep", "pipelined"][i % 2])
        c.small(com_prepare("S"))
        c.prepares.append({"id": le4(3), "params": [GB.rcol("p%d" % j, T_BLOB if p[0] != 'long' else T_LONG) for j, p in enumerate(ps)], "cols": []})
        c.cmd_runs(big_execute(3, ps), 0)
        c.programs.append([op_completed(1, 0)])
        c.small(com_ping())
        c.small(com_quit())
        out.append(c.build())
    return out
