"""Per-property check driver: MC models (TLC, exhaustive, small scope) -> behaviours replayed on the
real code (S->I) + generated scenarios (I->S) -> Trace.tla verdicts -> known findings, replay
files, evidence."""
import hashlib, json, os, random, re, shutil, sys, time

from . import run as R
from . import gens as G

VERIF = R.VERIF
KNOWN = os.path.join(VERIF, 'known_findings.json')

LEVEL = {p: 'model_checking' for p in ['C%02d' % i for i in range(1, 21)]}
LEVEL['C19'] = 'fault_enumeration'


def load_known():
    try:
        return json.load(open(KNOWN))
    except FileNotFoundError:
        return {"findings": []}


def scen_sig(sc):
    h = hashlib.sha1()
    core = {k: sc.get(k) for k in ('shim', 'client', 'transport', 'cases', 'enum', 'kind')}
    h.update(json.dumps(core, sort_keys=True).encode())
    return h.hexdigest()[:16]


def nontrivial_default(sc):
    if sc.get('kind', 'conn') != 'conn':
        return True
    return len(sc['client']['msgs']) >= 3


def viol_key(v):
    why = re.sub(r'\s+', ' ', v['why'])
    return '%s|%s' % (v['p'], why)


def match_known(known, pid, key, sc):
    for f in known.get('findings', []):
        if f.get('status') != 'open' or f.get('property') != pid:
            continue
        if f['match'] in key:
            req = f.get('scenario_meta')
            if req:
                meta = sc.get('meta', {}) if sc else {}
                if any(meta.get(k) != v for k, v in req.items()):
                    continue
            return f
    return None


def execute(scenarios, work, jobs, tag='main', module=None, max_events=40000):
    """scenarios -> (verdict by run id, states, nevents)"""
    os.makedirs(work, exist_ok=True)
    sp = os.path.join(work, tag + '.scen.jsonl')
    tp = os.path.join(work, tag + '.trace.ndjson')
    with open(sp, 'w') as f:
        for sc in scenarios:
            f.write(json.dumps(sc, separators=(',', ':')) + '\n')
    R.run_harness(sp, tp, os.path.join(work, tag + '.progress'))
    verdicts, states, nevents = R.validate_trace(tp, os.path.join(work, tag + '.tlc'), jobs=jobs, module=module or 'Trace', max_events=max_events)
    byrun = {}
    for v in verdicts:
        byrun[v['run']] = v
    # what each writer call returned, per run (compared with what the TLC behaviour predicted)
    cur = None
    for ln in open(tp):
        if ln.startswith('{"') and '"e":"begin"' in ln[:400]:
            cur = json.loads(ln)['run']
        elif '"e":"w"' in ln and cur in byrun:
            try:
                e = json.loads(ln)
            except Exception:
                continue
            if e.get('e') == 'w' and not e['op'].get('implicit') and e['op'].get('op') not in ('reply', 'perror'):
                byrun[cur].setdefault('wres', []).append(e['res'])
    # the one judgement TLA+ cannot make: decimal text <-> binary float (exact rational arithmetic)
    for v in verdicts:
        for fl in v.get('floats', []):
            kind, le, text = fl[0], fl[1], fl[2]
            if not R.float_text_ok(kind, le, text):
                v['viol'].append({'p': 'C06', 'at': 0, 'why': 'float text does not round-trip to the written %s' % kind})
    return byrun, states, nevents, tp


def execute_all(scenarios, work, jobs, tag='main'):
    """flat traces are judged by Trace.tla, run-length encoded ones (16-50 MiB messages) by TraceBig.tla"""
    flat = [s for s in scenarios if s.get('enc', 'flat') != 'rle']
    big = [s for s in scenarios if s.get('enc', 'flat') == 'rle']
    byrun, states, nevents = {}, 0, 0
    if flat:
        b, st, ne, _ = execute(flat, work, jobs, tag=tag, module='Trace')
        byrun.update(b)
        states += st or 0
        nevents += ne
    if big:
        b, st, ne, _ = execute(big, work, jobs, tag=tag + 'big', module='TraceBig', max_events=400)
        byrun.update(b)
        states += st or 0
        nevents += ne
    return byrun, states, nevents


def derive_twins(scenarios, byrun):
    """C18 "served exactly as over plaintext": the same conversation is run over TLS and over plaintext
    (meta.twin); a TLS run with TLC violations that its plaintext twin does not have is a C18 violation."""
    for sc in scenarios:
        tw = sc.get('meta', {}).get('twin')
        if tw and sc['id'] in byrun and tw in byrun:
            mine_v = [x for x in byrun[sc['id']]['viol'] if x['p'] != 'C18']
            if mine_v and not byrun[tw]['viol']:
                byrun[sc['id']]['viol'].append({'p': 'C18', 'at': mine_v[0]['at'],
                                                 'why': 'not served over TLS as over plaintext: ' + mine_v[0]['p'] + ' ' + mine_v[0]['why']})


def probe_ops(scenarios, work):
    """fault-free run of scenarios on the real code to learn how many transport operations each performs"""
    os.makedirs(work, exist_ok=True)
    sp = os.path.join(work, 'probe.scen.jsonl')
    tp = os.path.join(work, 'probe.trace.ndjson')
    with open(sp, 'w') as f:
        for sc in scenarios:
            f.write(json.dumps(sc, separators=(',', ':')) + '\n')
    R.run_harness(sp, tp, os.path.join(work, 'probe.progress'))
    counts = {}
    cur = None
    for ln in open(tp):
        e = json.loads(ln)
        if e['e'] == 'begin':
            cur = counts.setdefault(e['run'], {'rd': 0, 'wr': 0, 'fl': 0, 'ops': 0})
        elif e['e'] in ('rd', 'wr', 'fl') and cur is not None:
            cur[e['e']] += 1
            cur['ops'] += 1
    return counts


def check_property(a):
    pid = a.prop
    if pid not in LEVEL:
        print('unknown property %s' % pid, file=sys.stderr)
        return 2
    t0 = time.time()
    work = os.path.join(VERIF, 'work', '%s-%d' % (pid, os.getpid()))
    os.makedirs(work, exist_ok=True)
    viol_dir = os.path.join(VERIF, 'work', 'violations')
    os.makedirs(viol_dir, exist_ok=True)
    try:
        return _check_property(a, pid, t0, work, viol_dir)
    finally:
        if not a.keep:
            shutil.rmtree(work, ignore_errors=True)


def _check_property(a, pid, t0, work, viol_dir):
    build_s = R.build_harness()
    rng = random.Random(a.seed * 1000003 + int(pid[1:]))
    known = load_known()

    mc_info = {'states': 0, 'transitions': 0, 'models': []}
    s2i = []
    if not a.replay:
        from . import mc as MC
        mc_info, s2i = MC.run_models(pid, a.tier, work, a.jobs, rng)

    if a.replay:
        rp = json.load(open(a.replay))
        scenarios = rp.get('pre', []) + [rp['scenario']] + rp.get('extra', [])
    else:
        gen = getattr(G, 'gen_' + pid)
        import inspect
        if 'probe' in inspect.signature(gen).parameters:
            scenarios = s2i + gen(rng, a.tier, probe=lambda scs: probe_ops(scs, work))
        else:
            scenarios = s2i + gen(rng, a.tier)
    R.log('[%s] %d scenarios (%d from TLC behaviours), harness build %.1fs' % (pid, len(scenarios), len(s2i), build_s))
    by_id = {sc['id']: sc for sc in scenarios}
    if len(by_id) != len(scenarios):
        raise R.ToolError('duplicate scenario ids in the generated set')
    byrun, states, nevents = execute_all(scenarios, work, a.jobs)

    derive_twins(scenarios, byrun)
    # spec -> implementation: did every call return what the TLC behaviour predicted?
    conf = {'compared': 0, 'mismatches': 0}
    for sc in scenarios:
        exp = sc.get('meta', {}).get('expect_res')
        if exp is not None and sc['id'] in byrun:
            conf['compared'] += 1
            got = byrun[sc['id']].get('wres', [])
            if got != exp[:len(got)] or len(got) < len(exp):
                conf['mismatches'] += 1
                if conf['mismatches'] <= 5:
                    R.log('INFO conformance: run %s: model predicted %s, implementation returned %s' % (sc['id'], exp, got))
    a.conformance = conf
    # collect
    mine = {}     # key -> (scenario id, violation)
    others = {}
    for rid, v in byrun.items():
        for x in v['viol']:
            k = viol_key(x)
            if x['p'] == 'TOOL':
                raise R.ToolError('monitor reported a tool problem in run %s: %s' % (rid, x['why']))
            (mine if x['p'] == pid else others).setdefault(k, (rid, x))
    rc = 0
    n_viol = 0
    printed_known = set()
    new = []
    for k, (rid, x) in sorted(mine.items()):
        f = match_known(known, pid, k, by_id.get(rid))
        if f:
            if f['match'] not in printed_known:
                printed_known.add(f['match'])
                print('KNOWN-FINDING: property=%s %s' % (pid, f['what']))
            continue
        new.append((k, rid, x))
    # reproduce each new violation once from its scenario alone before reporting it
    if new:
        redo = []
        seen = set()
        for k, rid, x in new:
            if rid not in seen and rid in by_id:
                seen.add(rid)
                # meta.after: the connection served just before this one by the same thread is part of the scenario
                pre = by_id[rid].get('meta', {}).get('after')
                if pre and pre in by_id and by_id[pre] not in redo:
                    redo.append(by_id[pre])
                redo.append(by_id[rid])
        redo = redo[:40]
        for sc in list(redo):
            tw = sc.get('meta', {}).get('twin')
            if tw and tw in by_id and by_id[tw] not in redo:
                redo.append(by_id[tw])
        rb, _, _ = execute_all(redo, work, a.jobs, tag='repro')
        derive_twins(redo, rb)
        for k, rid, x in new:
            if rid in seen and rid in rb:
                again = {viol_key(y) for y in rb[rid]['viol']}
                if k not in again and rid in [s['id'] for s in redo]:
                    raise R.ToolError('violation %s of run %s did not reproduce - harness nondeterminism' % (k, rid))
            n_viol += 1
            h = hashlib.sha1((k + rid).encode()).hexdigest()[:12]
            path = os.path.join(viol_dir, '%s-%s.json' % (pid, h))
            with open(path, 'w') as f:
                tw = (by_id.get(rid) or {}).get('meta', {}).get('twin')
                pre = (by_id.get(rid) or {}).get('meta', {}).get('after')
                json.dump({'property': pid, 'key': k, 'violation': x, 'scenario': by_id.get(rid), 'verdict': byrun[rid],
                           'extra': [by_id[tw]] if tw in by_id else [], 'pre': [by_id[pre]] if pre in by_id else []}, f)
            print('VIOLATION property=%s replay=%s' % (pid, path))
            R.log('   %s (run %s)' % (k, rid))
            rc = 1
    for k, (rid, x) in sorted(others.items())[:20]:
        R.log('NOTE other-property observation in %s runs: %s (run %s)' % (pid, k, rid))

    if not a.replay:
        write_evidence(pid, a, scenarios, byrun, mc_info, s2i, states, nevents, n_viol, time.time() - t0)
    R.log('[%s] %s: %d runs, %d events, %d violations, %.1fs' % (pid, a.tier, len(byrun), nevents, n_viol, time.time() - t0))
    return rc


def write_evidence(pid, a, scenarios, byrun, mc_info, s2i, states, nevents, n_viol, wall):
    ntfn = getattr(G, 'NONTRIVIAL', {}).get(pid, nontrivial_default)
    sigs = set()
    ncases = 0
    for sc in scenarios:
        if sc.get('kind') == 'encode':
            # direct encoder runs: one case per (value, column); trivial = zero / empty values
            for c in sc.get('cases', []):
                ncases += 1
                v = c['v']
                raw = v.get('le') or v.get('b') or v.get('v') or []
                if any(raw):
                    sigs.add(json.dumps([v.get('k'), v.get('t'), raw if len(raw) <= 16 else [len(raw), raw[:8]], c['col']['ty'], c['col']['fl'], c.get('mode')]))
            en = sc.get('enum')
            if en:
                n = 256 if en['k'] in ('i8', 'u8') else 65536
                ncases += n * len(en['cols'])
                for c in en['cols']:
                    for x in range(1, n):
                        sigs.add('%s/%d/%d/%d' % (en['k'], x, c['ty'], c['fl']))
        elif ntfn(sc):
            sigs.add(sc.get('meta', {}).get('sig') or scen_sig(sc))
    stats = {}
    for v in byrun.values():
        for k, n in v.get('stats', {}).items():
            stats[k] = stats.get(k, 0) + n
    samples = []
    for sc in scenarios[:2] + scenarios[len(scenarios) // 2:len(scenarios) // 2 + 1]:
        s = json.dumps(sc, separators=(',', ':'))
        samples.append(json.loads(s) if len(s) < 3000 else {'id': sc['id'], 'truncated': s[:3000]})
    cov = {
        'evaluations': len([x for x in scenarios if x.get('kind') != 'encode']) + ncases,
        'distinct_nontrivial': len(sigs),
        'rule': getattr(G, 'RULE', {}).get(pid, 'connection scenarios from TLC behaviours + seeded generators: distinct = distinct (client bytes, shim script, transport schedule, fault plan), non-trivial = at least two commands after the handshake; direct encoder cases: distinct = distinct (Rust kind, value, column type, flags, mode), non-trivial = value not zero/empty'),
        'samples': samples,
        'states': max(1, mc_info.get('states', 0) + (states or 0)),
        'transitions': max(1, mc_info.get('transitions', 0) + nevents),
        'traces_validated_against_impl': len(byrun),
        'mc_models': mc_info.get('models', []),
        'trace_events_validated': nevents,
        'tlc_behaviours_replayed': len(s2i),
        's2i_call_results': getattr(a, 'conformance', {}),
        'monitor_stats': stats,
        'exhaustive': bool(mc_info.get('exhaustive', False)),
        'checker_cmd': 'tlc -workers 1 -config spec/Trace.cfg spec/Trace.tla (per shard) + spec/MC_*.cfg',
    }
    ev = {
        'property_id': pid, 'tier': a.tier, 'seed': a.seed, 'level': LEVEL[pid], 'coverage': cov,
        'assumptions': getattr(G, 'ASSUME', {}).get(pid, []) + [
            'the harness (scripted transport, program shim) and the client-side decoder in spec/ are trusted',
            'TLC results are exhaustive only within the stated constants of each MC model'],
        'wall_s': round(wall, 1), 'violations': n_viol,
    }
    os.makedirs(os.path.join(VERIF, 'evidence'), exist_ok=True)
    with open(os.path.join(VERIF, 'evidence', pid + '.json'), 'w') as f:
        json.dump(ev, f, indent=1)
