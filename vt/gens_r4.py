"""Generator additions made after the fourth round of independently seeded defects (DESIGN.md section 11)."""
from .proto import *
from . import gens_big as GB
from .gens_r3 import cont, by_ref

F_ZEROFILL, F_PRI_KEY, F_UNIQUE, F_BLOB, F_BINARY, F_ENUM, F_AUTO_INC, F_TIMESTAMP, F_SET, F_NO_DEFAULT, F_ON_UPDATE, F_NUM = \
    0x40, 0x02, 0x04, 0x10, 0x80, 0x100, 0x200, 0x400, 0x800, 0x1000, 0x2000, 0x8000
CAP_LONG_FLAG = 0x4


def with_bound_flag(payload, nparams, flag):
    """the new-params-bound byte of a COM_STMT_EXECUTE payload set to `flag` (any non-zero value means: types follow)"""
    p = list(payload)
    p[10 + (nparams + 7) // 8] = flag
    return p


def exact_fill_conv(sid, total, mode="lockstep"):
    """a query whose packet ends exactly `total` bytes after the handshake response (the room of one read)"""
    c = Conv(sid, mode=mode)
    text = bytes(97 + (j % 26) for j in range(total - 5))
    c.query(text, [op_completed(1, 0)])
    c.query(b"next", [op_completed(2, 0)])
    c.ping()
    c.quit()
    return c


def c02_extra(rng, tier):
    out = []
    # cursor flags / iteration counts of COM_STMT_EXECUTE are not this server's business: the command is an execution
    c = Conv("C02-execflags", mode="lockstep")
    c.prepare("S", prep_ok(1, [col("p", T_LONG)], []))
    for i, fl in enumerate([0, 1, 2, 4, 8, 0x80, 0xff]):
        c.cmd(com_execute(1, [p_int(T_LONG, i)], True, flags=fl))
        c.programs.append([op_completed(i, 0)])
    c.cmd(com_close(1))
    c.ping()
    c.quit()
    out.append(c.build())
    # a lock-step client whose command ends exactly where the room offered by one read ends
    for total in [4096, 8192, 4095, 4097, 16384]:
        out.append(exact_fill_conv("C02-fill-%d" % total, total).build())
    # a command of three and more packets
    for i, (a, d) in enumerate([(2, 5)] if tier == "quick" else [(2, 5), (2, 0), (3, 1)]):
        c = GB.BigConv("C02-big-%d-%+d" % (a, d), mode="pipelined")
        c.cmd_runs(GB.canon([[3, 1]] + GB.pattern_ascii(a * GB.PM + d - 1, i)), 0)
        c.programs.append([op_completed(1, 0)])
        c.small(com_query("after"))
        c.programs.append([op_completed(2, 0)])
        c.small(com_quit())
        out.append(c.build())
    return out


def c09_extra(rng, tier):
    from .gens import tls_conv
    out = []
    # every flag bit, with clients that do and do not announce CLIENT_LONG_FLAG (it concerns the 3.20 layout only)
    allflags = [F_NOT_NULL, F_PRI_KEY, F_UNIQUE, 0x08, F_BLOB, F_UNSIGNED, F_ZEROFILL, F_BINARY, F_ENUM, F_AUTO_INC, F_TIMESTAMP, F_SET,
                F_NO_DEFAULT, F_ON_UPDATE, 0x4000, F_NUM]
    for i, caps in enumerate([0xa200, 0xa200 | CAP_LONG_FLAG, 0x0200, 0xffff & ~0x0800]):
        c = Conv("C09-flags-%d" % i, mode="lockstep", hs=handshake41(b"u", caps=caps))
        cols = [col("f%d" % j, T_LONG if j % 2 else T_VAR_STRING, fl) for j, fl in enumerate(allflags)] + \
               [col("all", T_LONGLONG, 0xffff), col("mix", T_BLOB, F_ENUM | F_NOT_NULL | F_NUM)]
        c.query("Q", [op_start(cols), op_finish()])
        c.prepare("P", prep_ok(9, cols[:5], cols))
        c.ping()
        c.quit()
        out.append(c.build())
    # metadata of more than 64 KiB over TLS
    for i, (ncols, namelen) in enumerate([(900, 60), (2, 70000)]):
        c = tls_conv("C09-tlsbig-%d" % i, rng, ncmd=0)
        c.msgs = c.msgs[:2]
        c.programs = []
        cols = [col("n%05d" % j + "x" * (namelen - 6), T_LONG) for j in range(ncols)]
        c.query("Q", [op_start(cols), op_finish()])
        c.prepare("P", prep_ok(3, [], cols))
        c.ping()
        c.quit()
        out.append(c.build())
    # the same id answered twice with different parameter counts, without a close in between
    for i, (n1, n2) in enumerate([(2, 3), (3, 0), (0, 4), (1, 1)]):
        c = Conv("C09-reprep-%d" % i, mode="lockstep")
        c.prepare("A", prep_ok(7, [col("a%d" % k, T_LONG) for k in range(n1)], [col("x", T_LONG)]))
        c.prepare("B", prep_ok(7, [col("b%d" % k, T_VAR_STRING) for k in range(n2)], [col("y", T_BLOB), col("z", T_LONG)]))
        c.cmd(com_close(7))
        c.prepare("C", prep_ok(7, [col("c", T_DOUBLE)], []))
        c.ping()
        c.quit()
        out.append(c.build())
    return out


def c11_extra(rng, tier):
    from .gens import tls_conv
    out = []
    # the response inside the TLS session need not repeat the SSL bit, and numbers its packet as it likes
    for i, (repeat, seq2, auth) in enumerate([(False, 2, "accept"), (False, 2, "reject"), (True, 1, "accept"), (True, 7, "reject"), (False, 255, "accept"), (True, 0, "accept")]):
        c = tls_conv("C11-tls-%d" % i, rng, mode=["lockstep", "pipelined"][i % 2], auth=auth, ncmd=1, repeat_ssl_flag=repeat)
        c.msgs[1] = {"b": list(frame(handshake41(b"tlsuser", caps=(0xa200 | CAP_SSL) if repeat else 0xa200), seq2)), "reply": True}
        out.append(c.build())
    return out


def c12_extra(rng, tier):
    out = []
    # a command of three and more packets from a client that waits for the reply
    for i, (a, d) in enumerate([(2, 5)] if tier == "quick" else [(2, 5), (2, 0), (3, 7)]):
        c = GB.BigConv("C12-big3-%d" % i, mode="lockstep")
        c.cmd_runs(GB.canon([[3, 1]] + GB.pattern_ascii(a * GB.PM + d - 1, i)), 0)
        c.programs.append([op_completed(1, 0)])
        c.small(com_ping())
        c.small(com_quit())
        out.append(c.build())
    # a shim that offers TLS, a client that does not want it and pipelines across the authentication
    for i, chunks in enumerate([[], [10000], [40, 10000]]):
        c = Conv("C12-tlsoffer-%d" % i, mode="pipelined", tls=True)
        c.ping()
        c.query("Q", [op_completed(1, 0)])
        c.query("R", [op_start([col("a", T_LONG)]), op_write_row([v_int("i32", 1)]), op_finish()])
        c.ping()
        c.quit()
        c.chunks, c.then = chunks, 10000
        out.append(c.build())
    # command bytes this server does not know, for a LIVE statement, from a client that waits for the answer:
    # answered or refused, never swallowed
    for i, cmdb in enumerate([0x1a, 0x1c, 0x11a]):
        c = Conv("C12-unknowncmd-%d" % i, mode="lockstep")
        c.prepare("S", prep_ok(1, [col("p", T_BLOB)], []))
        c.cmd(com_long_data(1, 0, b"abc"))
        if cmdb < 0x100:
            c.cmd([cmdb] + le4(1), reply=True)
        else:
            c.cmd([0x1a] + le4(1) + [0, 0], reply=True)
        c.ping()
        out.append(c.build())
    return out


def c14_extra(rng, tier):
    out = []
    # zero-column resultsets: only ended rows count, whatever else the shim calls; any position in a chain
    for i, binary in enumerate([False, True]):
        c = Conv("C14-zc-writecol-%d" % i, mode="lockstep")
        ops = [op_start([])]
        for r in range(3):
            ops += [op_write_col(v_int("i32", r)), op_write_col(v_bytes(b"x", "str")), op_end_row()]
        ops += [op_write_col(v_none("u8")), op_finish()]
        ops2 = [op_complete_one(300, 70000), op_start([]), op_end_row(), op_end_row(), op_finish()]
        ops3 = [op_start([col("a", T_LONG)]), op_write_row([v_int("i32", 1)]), op_finish_one(), op_start([]), op_write_row([]), op_write_row([v_int("i32", 5)]),
                op_finish_one(), op_start([]), op_finish_one(), op_completed(2 ** 40, 2 ** 63)]
        if binary:
            c.prepare("S", prep_ok(1, [], []))
            for o in (ops, ops2, ops3):
                c.execute(1, [], o)
        else:
            for k, o in enumerate((ops, ops2, ops3)):
                c.query("Q%d" % k, o)
        c.ping()
        c.quit()
        out.append(c.build())
    # 65,535 / 65,536 / 70,000 ended rows (the count is a 64-bit quantity)
    for i, n in enumerate([65535, 65536, 70000] if tier == "quick" else [255, 256, 65535, 65536, 65537, 70000, 2 ** 24 + 1]):
        c = Conv("C14-zc-many-%d" % n, mode="lockstep")
        o = dict(op_end_row())
        o["times"] = n
        ops = [op_start([]), o, op_finish()]
        if i % 2:
            c.prepare("S", prep_ok(1, [], []))
            c.execute(1, [], ops)
        else:
            c.query("Q", ops)
        c.ping()
        c.quit()
        out.append(c.build())
    return out


def c15_extra(rng, tier):
    out = []
    # column flags other than UNSIGNED do not change what a column can carry or how the client reads it
    vals = [(-5, "i32"), (-1, "i8"), (-300, "isize"), (200, "u8"), (2 ** 31, "i64"), (-2 ** 63, "i64"), (0, "i16")]
    for i, extra in enumerate([F_ZEROFILL, F_NUM, F_PRI_KEY | F_AUTO_INC, F_ZEROFILL | F_UNSIGNED, F_BINARY | F_ENUM | F_SET]):
        cols = [col("a", T_LONGLONG, extra), col("b", T_LONG, extra), col("c", T_TINY, extra), col("d", T_SHORT, extra), col("e", T_INT24, extra)]
        c = Conv("C15-flags-%d" % i, mode="lockstep")
        c.prepare("S", prep_ok(1, [], cols))
        # one single-column resultset per (column, value): a refused value must not disturb the others
        c.execute(1, [], [op_start(cols), op_write_row([v_int("i8", 1)] * 5) if not (extra & F_UNSIGNED) else op_write_row([v_int("u8", 1)] * 5), op_finish()])
        for j, cd in enumerate(cols):
            c.prepare("T%d" % j, prep_ok(10 + j, [], [cd]))
            for (x, k) in vals:
                c.execute(10 + j, [], [op_start([cd]), cont(op_write_col(v_int(k, x))), op_finish()])
        c.ping()
        c.quit()
        out.append(c.build())
    # a row begun with write_col and completed with write_row (and the other way round)
    for i in range(6 if tier == "quick" else 40):
        tys = [rng.choice([T_LONG, T_SHORT, T_LONGLONG, T_TINY]) for _ in range(rng.choice([3, 4, 6]))]
        cols = [col("c%d" % j, t, F_UNSIGNED if rng.random() < 0.3 else 0) for j, t in enumerate(tys)]

        def val(cd):
            return v_int("u8", rng.randint(0, 200)) if cd["fl"] & F_UNSIGNED else v_int(rng.choice(["i8", "i16"]) if cd["ty"] != T_TINY else "i8", rng.randint(-100, -1))
        k = rng.randint(1, len(cols) - 1)
        ops = [op_start(cols)]
        ops += [op_write_col(val(cd)) for cd in cols[:k]] + [op_write_row([val(cd) for cd in cols[k:]])]
        ops += [op_write_row([val(cd) for cd in cols])]
        ops += [op_write_col(val(cols[0])), op_write_row([val(cd) for cd in cols[1:]])]
        ops.append(op_finish())
        c = Conv("C15-mixrow-%d" % i, mode="lockstep")
        c.prepare("S", prep_ok(1, [], cols))
        c.execute(1, [], ops)
        c.ping()
        c.quit()
        out.append(c.build())
    return out


def c16_extra(rng, tier):
    out = []
    # long data for a parameter does not change the type bound for it
    for i, ty in enumerate([T_LONG, T_LONGLONG, T_DOUBLE, T_VAR_STRING]):
        c = Conv("C16-longthenreuse-%d" % i, mode="lockstep")
        c.prepare("S", prep_ok(1, [col("a", ty), col("b", T_BLOB)], []))
        first = [p_int(ty, 5) if ty in INT_TYPES else p_f64(f64_bits(1.5)) if ty == T_DOUBLE else p_bytes(ty, b"v"), p_bytes(T_BLOB, b"w")]
        c.execute(1, first, [op_completed(1, 0)])
        c.cmd(com_long_data(1, 0, b"long-a"))
        c.cmd(com_long_data(1, 1, b"long-b"))
        c.execute(1, [dict(first[0], long=True, null=False, enc=[]), dict(first[1], long=True, null=False, enc=[])], [op_completed(2, 0)], rebind=False)
        second = [p_int(ty, 16909060) if ty in INT_TYPES else p_f64(f64_bits(-2.5)) if ty == T_DOUBLE else p_bytes(ty, b"again"), p_bytes(T_BLOB, b"z")]
        c.execute(1, second, [op_completed(3, 0)], rebind=False)
        c.ping()
        c.quit()
        out.append(c.build())
    # a bind that is refused because of an undefined type code must not leave anything behind for OTHER statements
    for i, bad in enumerate([0x20, 0x11, 0xf0]):
        c = Conv("C16-badbind-%d" % i, mode="lockstep")
        c.prepare("S1", prep_ok(1, [col("a", T_VAR_STRING), col("b", T_LONG)], []))
        c.prepare("S2", prep_ok(2, [col("x", T_LONG), col("y", T_LONG)], []))
        c.execute(1, [p_bytes(T_VAR_STRING, b"ok"), p_int(T_LONG, 1)], [op_completed(1, 0)])
        payload = [0x17] + le4(1) + [0] + le4(1) + [0] + [1] + [T_VAR_STRING, 0, bad, 0] + [1, 65] + le4(5)
        c.cmd(payload)
        c.programs.append([op_completed(2, 0)])
        c.execute(2, [p_int(T_LONG, 1), p_int(T_LONG, 2)], [op_completed(3, 0)])
        c.execute(2, [p_int(T_LONG, 3), p_int(T_LONG, 131072)], [op_completed(4, 0)], rebind=False)
        c.ping()
        c.quit()
        out.append(c.build())
    # any non-zero new-params-bound byte means that types follow
    for i, flag in enumerate([1, 2, 3, 0x80, 0xff]):
        c = Conv("C16-boundflag-%02x" % flag, mode="lockstep")
        c.prepare("S", prep_ok(1, [col("a", T_LONG), col("b", T_VAR_STRING)], []))
        c.execute(1, [p_int(T_LONG, 7), p_bytes(T_VAR_STRING, b"x")], [op_completed(1, 0)])
        ps = [p_bytes(T_VAR_STRING, b"now a string"), p_int(T_LONGLONG, -3)]
        c.cmd(with_bound_flag(com_execute(1, ps, True), 2, flag))
        c.programs.append([op_completed(2, 0)])
        ps2 = [p_bytes(T_VAR_STRING, b"reuse"), p_int(T_LONGLONG, 2 ** 40)]
        c.execute(1, ps2, [op_completed(3, 0)], rebind=False)
        c.ping()
        c.quit()
        out.append(c.build())
    return out


def c20_extra(rng, tier):
    from .gens import rand_param
    out = []
    # many parameters (indexes beyond 63), long data for parameter indexes far beyond the declared ones
    for i, np_ in enumerate([64, 65, 70, 130] if tier == "quick" else [63, 64, 65, 66, 70, 128, 129, 130, 300]):
        c = Conv("C20-manyparams-%d" % np_, mode="lockstep")
        ps = [p_int(T_LONG, k) if k % 3 else p_bytes(T_VAR_STRING, b"s%d" % k) for k in range(np_)]
        c.prepare("S", prep_ok(1, [col("p%d" % k, p["ty"]) for k, p in enumerate(ps)], []))
        c.execute(1, ps, [op_completed(1, 0)])
        c.cmd(com_long_data(1, np_ - 1, b"tail"))
        c.cmd(com_long_data(1, 1, b"one"))
        ps2 = list(ps)
        ps2[np_ - 1] = dict(p_long(T_BLOB))
        ps2[1] = dict(p_long(T_BLOB))
        c.execute(1, ps2, [op_completed(2, 0)])
        c.ping()
        c.quit()
        out.append(c.build())
    for i, idx in enumerate([3, 64, 65, 66, 67, 128, 255, 256, 65535]):
        c = Conv("C20-longidx-%d" % idx, mode="lockstep")
        c.prepare("S", prep_ok(1, [col("a", T_BLOB), col("b", T_LONG), col("c", T_BLOB)], []))
        c.cmd(com_long_data(1, idx, b"beyond"))
        c.cmd(com_execute(1, [p_bytes(T_BLOB, b"x"), p_int(T_LONG, 2), p_bytes(T_BLOB, b"y")], True))
        c.programs.append([op_completed(1, 0)])
        c.ping()
        c.quit()
        sc = c.build()
        sc["meta"] = {"robust": True}
        out.append(sc)
    # temporal parameters whose length byte is anything from 0 to 255, with too few, exactly enough and too many bytes
    k = 0
    for ty in (T_TIMESTAMP, T_DATE, T_TIME, T_DATETIME):
        for ln in [0, 1, 4, 5, 7, 8, 11, 12, 13, 127, 128, 254, 255]:
            for avail in sorted({0, 1, min(ln, 12), ln, ln + 3}):
                if avail > 300:
                    continue
                k += 1
                c = Conv("C20-temporal-%03d" % k, mode="pipelined")
                c.prepare("S", prep_ok(1, [col("t", ty), col("n", T_LONG)], []))
                payload = [0x17] + le4(1) + [0] + le4(1) + [0] + [1] + [ty, 0, T_LONG, 0] + [ln] + [((j * 7) % 24) + 1 for j in range(avail)] + le4(9)
                c.cmd(payload)
                c.programs.append([op_completed(1, 0)])
                c.ping()
                sc = c.build()
                sc["meta"] = {"robust": True}
                out.append(sc)
    return out
