"""Generator additions made after the seventh round of independently seeded defects (DESIGN.md section 11)."""
import copy
from .proto import *

CAP_CONNECT_WITH_DB, CAP_SECURE_CONNECTION, CAP_PLUGIN_AUTH, CAP_LENENC_DATA, CAP_CONNECT_ATTRS = 0x8, 0x8000, 1 << 19, 1 << 21, 1 << 20


def c02_extra(rng, tier):
    out = []
    # a handshake that names a schema (CLIENT_CONNECT_WITH_DB), with the optional fields a real client sends:
    # the login is a login, not a database switch - on_init is called for USE / COM_INIT_DB only
    tails = [
        (CAP_CONNECT_WITH_DB, [0] + list(b"mydb\x00")),
        (CAP_CONNECT_WITH_DB | CAP_SECURE_CONNECTION, [20] + [7] * 20 + list(b"shop\x00")),
        (CAP_CONNECT_WITH_DB | CAP_SECURE_CONNECTION | CAP_PLUGIN_AUTH, [20] + [9] * 20 + list(b"db\x00mysql_native_password\x00")),
        (CAP_SECURE_CONNECTION | CAP_PLUGIN_AUTH, [0] + list(b"mysql_native_password\x00")),
        (CAP_SECURE_CONNECTION, [252] + [5] * 252),
        (CAP_SECURE_CONNECTION | CAP_LENENC_DATA, [0xfc, 252, 0] + [5] * 252),
    ]
    for i, (caps, tail) in enumerate(tails):
        for auth in ("accept", "reject"):
            c = Conv("C02-hsdb-%d-%s" % (i, auth), mode="lockstep", hs=handshake41(b"user%d" % i, caps=0xa200 | caps, tail=tail), auth=auth)
            if auth == "accept":
                c.query("SELECT 1", [op_completed(1, 0)])
                c.init_db("other", [op_init_ok()])
                c.ping()
                c.quit()
            else:
                c.ping()
            out.append(c.build())
    # statements client libraries send on their own: only `SELECT @@...` and `USE ...` are the library's business
    texts = [b"SET NAMES utf8", b"set names latin1", b"SET NAMES utf8mb4 COLLATE utf8mb4_unicode_ci", b"SET autocommit=0", b"SET SESSION sql_mode=''",
             b"SHOW VARIABLES LIKE 'max_allowed_packet'", b"SHOW DATABASES", b"BEGIN", b"COMMIT", b"ROLLBACK", b"START TRANSACTION", b"KILL QUERY 7",
             b"SELECT @x", b"SELECT @ @y", b"select 1", b"SELECT DATABASE()", b"SELECT VERSION()", b"SELECT CONNECTION_ID()", b"DO 1", b"PING", b"QUIT",
             b"USES x", b"used", b"SET @@session.x = 1", b"/* hint */ SELECT @@version", b" SELECT @@version", b"SeLeCt @@version"]
    for i in range(0, len(texts), 9):
        c = Conv("C02-preamble-%d" % i, mode=["lockstep", "pipelined"][(i // 9) % 2])
        for j, t in enumerate(texts[i:i + 9]):
            c.query(t, [op_completed(j, 0)])
            if j % 3 == 0:
                c.prepare(t, prep_ok(j + 1, [], []))
        c.ping()
        c.quit()
        out.append(c.build())
    return out


def c11_extra(rng, tier):
    # the same handshakes seen from C11: the user name arrives, the login is answered, nothing else is called
    out = []
    for sc in c02_extra(rng, tier):
        if sc["id"].startswith("C02-hsdb"):
            sc = copy.deepcopy(sc)
            sc["id"] = sc["id"].replace("C02-", "C11-")
            out.append(sc)
    return out


def c08_extra(rng, tier):
    """TIME parameters over the whole range of the 4-byte day field, converted to Duration by the shim"""
    out = []
    days = [0, 1, 34, 35, 16383, 16384, 65536, 178956970, 178956971, 2 ** 31 - 1, 2 ** 31, 2 ** 32 - 1]
    for i in range(0, len(days), 4):
        c = Conv("C08-timedays-%d" % i, mode="lockstep")
        ps = [p_time(d, 23, 59, 59, 999999 if k % 2 else 0) for k, d in enumerate(days[i:i + 4])]
        c.prepare("S", prep_ok(1, [col("t%d" % k, T_TIME) for k in range(len(ps))], []))
        c.execute(1, ps, [op_completed(1, 0)])
        c.ping()
        c.quit()
        out.append(c.build())
    return out


def c19_extra(rng, tier, probe):
    """after the client's QUIT the connection is over: a transport whose next read would fail does not change that"""
    out = []
    for i, mode in enumerate(["lockstep", "pipelined"]):
        c = Conv("C19-afterquit-%s" % mode, mode=mode)
        c.query("Q", [op_completed(1, 0)])
        c.ping()
        c.quit()
        base = c.build()
        n = probe([base])[base["id"]]
        for kind in ("oneoff", "persistent"):
            for err in ("ConnectionReset", "TimedOut"):
                s2 = copy.deepcopy(base)
                s2["id"] = "%s-%s-%s" % (base["id"], kind[0], err)
                # the first read that the fault-free run never makes
                s2["transport"]["fault"] = {"on": "read", "at": n["rd"], "kind": kind, "err": err}
                s2["meta"] = {"conv": base["id"], "fault": "read-after-quit"}
                out.append(s2)
    return out


def c19_tls_partial(rng, tier):
    """a TLS connection that is cut in the middle of a record, after everything before it was served: an end
    inside a packet like any other (the transport itself reports a clean end of stream)"""
    from .gens import tls_conv
    out = []
    for i, mode in enumerate(["lockstep", "pipelined"]):
        c = tls_conv("C19-tlspartial-%s" % mode, rng, mode=mode, ncmd=0)
        c.msgs = c.msgs[:2]
        c.programs = []
        c.query("Q", [op_completed(1, 0)])
        c.ping()
        sc = c.build()
        sc["transport"]["tls_partial_tail"] = True
        out.append(sc)
        # the twin that ends on a record boundary: a clean end
        c2 = tls_conv("C19-tlsclean-%s" % mode, rng, mode=mode, ncmd=0)
        c2.msgs = c2.msgs[:2]
        c2.programs = []
        c2.query("Q", [op_completed(1, 0)])
        c2.ping()
        out.append(c2.build())
    return out
