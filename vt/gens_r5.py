"""Generator additions made after the fifth round of independently seeded defects (DESIGN.md section 11)."""
import copy
from .proto import *
from . import gens_big as GB
from .gens_r3 import cont


def c08_extra(rng, tier):
    out = []
    # long data pending for statement A survives an execution of statement B
    for i, (a, b_) in enumerate([(1, 2), (7, 3), (2 ** 32 - 1, 1)]):
        c = Conv("C08-cross-%d" % i, mode=["lockstep", "pipelined"][i % 2])
        c.prepare("A", prep_ok(a, [col("p", T_BLOB), col("q", T_LONG)], []))
        c.prepare("B", prep_ok(b_, [col("x", T_LONG)], []))
        c.cmd(com_long_data(a, 0, b"pending for A"))
        c.execute(b_, [p_int(T_LONG, 5)], [op_completed(1, 0)])
        c.execute(a, [p_long(T_BLOB), p_int(T_LONG, 6)], [op_completed(2, 0)])
        c.execute(a, [p_bytes(T_BLOB, b"inline"), p_int(T_LONG, 7)], [op_completed(3, 0)], rebind=False)
        c.ping()
        c.quit()
        out.append(c.build())
    # a long-data value that is the empty string (every chunk empty) is still the value of its parameter
    for i, chunks in enumerate([[b""], [b"", b""], [b"", b"x", b""]]):
        c = Conv("C08-emptylong-%d" % i, mode="lockstep")
        c.prepare("S", prep_ok(1, [col("a", T_BLOB), col("b", T_VAR_STRING), col("c", T_LONG)], []))
        for ch in chunks:
            c.cmd(com_long_data(1, 0, ch))
        c.execute(1, [p_long(T_BLOB), p_bytes(T_VAR_STRING, b"second"), p_int(T_LONG, 9)], [op_completed(1, 0)])
        c.ping()
        c.quit()
        out.append(c.build())
    # the shim fetches the k-th parameter first (Iterator::nth / skip) and walks on from there
    for i, (skip, long_at) in enumerate([(1, None), (2, 0), (2, 1), (1, 0), (3, 1)]):
        c = Conv("C08-nth-%d" % i, mode="lockstep")
        ps = [p_bytes(T_BLOB, b"first"), p_bytes(T_VAR_STRING, b"second"), p_bytes(T_VAR_STRING, b"third"), p_int(T_LONG, 4)]
        c.prepare("S", prep_ok(1, [col("p%d" % k, p["ty"]) for k, p in enumerate(ps)], []))
        if long_at is not None:
            c.cmd(com_long_data(1, long_at, b"from long data"))
            ps[long_at] = p_long(ps[long_at]["ty"])
        c.execute(1, ps, [op_completed(1, 0)])
        c.ping()
        c.quit()
        sc = c.build()
        sc["shim"]["params_skip"] = skip
        out.append(sc)
    return out


def c17_extra(rng, tier):
    out = []
    for sc in c08_extra(rng, tier):
        if sc["id"].startswith("C08-nth") or sc["id"].startswith("C08-cross") or sc["id"].startswith("C08-emptylong"):
            sc = copy.deepcopy(sc)
            sc["id"] = sc["id"].replace("C08-", "C17-")
            out.append(sc)
    return out


def c13_extra(rng, tier):
    """error messages beyond one packet (the ERR message is 'the message bytes unchanged', whatever their number)"""
    out = []
    for i, n in enumerate([GB.PM - 9 + 1, GB.PM + 4321] if tier == "quick" else [GB.PM - 9, GB.PM - 9 + 1, GB.PM + 4321, 2 * GB.PM + 5]):
        for site in ("error", "finish_error"):
            c = GB.BigConv("C13-bigmsg-%d-%s" % (i, site), mode="lockstep")
            msg = GB.pattern(n, i)
            c.small(com_query("Q"))
            if site == "error":
                c.programs.append([{"op": "error", "kind": "ER_PARSE_ERROR", "msg": msg}])
            else:
                c.programs.append([op_start([GB.rcol("a")]), op_write_row([GB.vbig(GB.pattern(9, 1))]), {"op": "finish_error", "kind": "ER_DUP_ENTRY", "msg": msg}])
            c.small(com_ping())
            c.small(com_quit())
            out.append(c.build())
    return out


def c18_extra(rng, tier, probe):
    from .gens import tls_conv
    out = []
    # a ClientHello whose record layer says 0x0303 (RFC 8446 5.1; JSSE, SChannel), coalesced with the SSL request or not
    for i, ver in enumerate([[3, 3], [3, 1], [3, 2], [3, 4]]):
        for k, cuts in enumerate([[], [36], [20], [36 + 5]]):
            c = tls_conv("C18-hellover-%d-%d" % (i, k), rng, ncmd=1)
            sc = c.build()
            sc["transport"]["hello_version"] = ver
            sc["transport"]["cuts"] = cuts
            sc["transport"]["chunks"] = []
            sc["transport"]["then"] = 0
            out.append(sc)
    # EINTR while a packet of several TLS records is on its way out: retried or given up, never garbled
    c = tls_conv("C18-eintr", rng, ncmd=0)
    c.msgs = c.msgs[:2]
    c.programs = []
    data = bytes((j * 11) % 251 for j in range(40000))
    c.query("SELECT blob", [op_start([col("b", T_BLOB)]), op_write_row([v_bytes(data, "vec")]), op_write_row([v_bytes(b"tail", "bytes")]), op_finish()])
    c.ping()
    c.quit()
    base = c.build()
    n = probe([base])[base["id"]]
    out.append(base)
    for k in range(n["wr"] + 2):
        s2 = copy.deepcopy(base)
        s2["id"] = "C18-eintr-w%d" % k
        s2["transport"]["fault"] = {"on": "write", "at": k, "kind": "oneoff", "err": "Interrupted"}
        out.append(s2)
    return out


def c19_extra(rng, tier, probe):
    out = []
    # a client that closes the connection at a command boundary exactly where the room of a read ends
    hs = len(frame(handshake41(b"root"), 1))
    for i, total in enumerate([4096, 8192, 4095, 4097, 16384]):
        for mode in ("lockstep", "pipelined"):
            c = Conv("C19-fill-%d-%s" % (total, mode), mode=mode)
            first = total - (hs if mode == "pipelined" else 0)
            c.query(bytes(97 + (j % 26) for j in range(first - 5)), [op_completed(1, 0)])
            out.append(c.build())
    # a row message of exactly 2^24-1 bytes: the empty closing packet is a write of its own; each write of the
    # response fails once (the row is ended by the drop of the row writer, which cannot report the error itself)
    n = GB.cell_len_for_total(GB.PM)
    for ending in ("drop", "end_row"):
        c = GB.BigConv("C19-closer-%s" % ending, mode="lockstep")
        c.small(com_query("Q"))
        ops = [op_start([GB.rcol("a")]), op_write_col(GB.vbig(GB.pattern(n, 3)))]
        ops += [op_drop()] if ending == "drop" else [cont(op_end_row()), op_finish()]
        c.programs.append(ops)
        c.small(com_query("after"))
        c.programs.append([op_completed(2, 0)])
        c.small(com_quit())
        base = c.build()
        cnt = probe([base])[base["id"]]
        out.append(base)
        for k in range(cnt["wr"] + 1):
            s2 = copy.deepcopy(base)
            s2["id"] = "%s-w%d" % (base["id"], k)
            s2["transport"]["fault"] = {"on": "write", "at": k, "kind": "oneoff", "err": "BrokenPipe"}
            out.append(s2)
    return out
