"""Scenario generators, one family per property.  Each returns a list of scenario dicts (see
vt/proto.py: Conv.build()).  All randomness comes from the seeded rng handed in."""
import random
from .proto import *

ERR_KINDS_SMALL = ["ER_NO", "ER_BAD_DB_ERROR", "ER_PARSE_ERROR", "ER_NO_SUCH_TABLE", "ER_DUP_ENTRY",
                   "ER_ACCESS_DENIED_ERROR", "ER_UNKNOWN_ERROR", "ER_LOCK_DEADLOCK"]


# ------------------------------------------------------------------------------------------------
# values
def rand_ascii(rng, n):
    return bytes(rng.choice(b"abcdefghijklmnopqrstuvwxyzABCDEFGHIJKLMNOPQRSTUVWXYZ0123456789 _-") for _ in range(n))


def rand_utf8(rng, nchars):
    out = []
    for _ in range(nchars):
        r = rng.random()
        if r < 0.6:
            cp = rng.randrange(0x20, 0x7f)
        elif r < 0.8:
            cp = rng.randrange(0x80, 0x800)
        elif r < 0.95:
            cp = rng.choice([rng.randrange(0x800, 0xd800), rng.randrange(0xe000, 0x10000)])
        else:
            cp = rng.randrange(0x10000, 0x110000)
        out.append(chr(cp))
    return ''.join(out).encode('utf-8')


INT_RANGE = {'i8': (-2**7, 2**7 - 1), 'u8': (0, 2**8 - 1), 'i16': (-2**15, 2**15 - 1), 'u16': (0, 2**16 - 1),
             'i32': (-2**31, 2**31 - 1), 'u32': (0, 2**32 - 1), 'i64': (-2**63, 2**63 - 1), 'u64': (0, 2**64 - 1),
             'isize': (-2**63, 2**63 - 1), 'usize': (0, 2**64 - 1)}


def boundary_ints(kind):
    lo, hi = INT_RANGE[kind]
    s = {lo, hi, 0, 1, lo + 1, hi - 1}
    for k in range(0, 65):
        for d in (-1, 0, 1):
            for sign in (1, -1):
                x = sign * (1 << k) + d
                if lo <= x <= hi:
                    s.add(x)
    return sorted(s)


def rand_int(rng, kind):
    lo, hi = INT_RANGE[kind]
    r = rng.random()
    if r < 0.4:
        return rng.choice(boundary_ints(kind))
    if r < 0.6:
        return rng.randint(max(lo, -300), min(hi, 300))
    return rng.randint(lo, hi)


def col_range(ty, fl):
    w = INT_WIDTH[ty] * 8
    return (0, 2**w - 1) if fl & F_UNSIGNED else (-2**(w - 1), 2**(w - 1) - 1)


def kinds_fitting(ty, fl):
    """Rust integer kinds whose whole range fits the column (must-accept set of C15)."""
    lo, hi = col_range(ty, fl)
    return [k for k, (a, b_) in INT_RANGE.items() if k not in ('isize', 'usize') and lo <= a and b_ <= hi]


SPECIAL_F64 = [0x0000000000000000, 0x8000000000000000, 0x3ff0000000000000, 0xbff0000000000000, 0x7fefffffffffffff,
               0xffefffffffffffff, 0x0010000000000000, 0x0000000000000001, 0x000fffffffffffff, 0x3fb999999999999a,
               0x4340000000000000, 0x4340000000000001, 0x433fffffffffffff, 0x3ff0000000000001, 0x400921fb54442d18]
SPECIAL_F32 = [0x00000000, 0x80000000, 0x3f800000, 0xbf800000, 0x7f7fffff, 0xff7fffff, 0x00800000, 0x00000001,
               0x007fffff, 0x3dcccccd, 0x4b800000, 0x4b800001, 0x4b7fffff, 0x3f800001, 0x40490fdb]


def rand_f64_bits(rng, finite=True):
    if rng.random() < 0.4:
        return rng.choice(SPECIAL_F64)
    while True:
        x = rng.getrandbits(64)
        if not finite or ((x >> 52) & 0x7ff) != 0x7ff:
            return x


def rand_f32_bits(rng, finite=True):
    if rng.random() < 0.4:
        return rng.choice(SPECIAL_F32)
    while True:
        x = rng.getrandbits(32)
        if not finite or ((x >> 23) & 0xff) != 0xff:
            return x


def days_in(y, m):
    if m in (1, 3, 5, 7, 8, 10, 12):
        return 31
    if m in (4, 6, 9, 11):
        return 30
    return 29 if (y % 4 == 0 and y % 100 != 0) or y % 400 == 0 else 28


def rand_date(rng):
    y = rng.choice([0, 1, 4, 100, 400, 1900, 1970, 2000, 2023, 2024, 9999, rng.randint(0, 9999)])
    m = rng.randint(1, 12)
    d = rng.choice([1, days_in(y, m), rng.randint(1, days_in(y, m))])
    return y, m, d


def rand_time(rng):
    return rng.choice([0, 23, rng.randint(0, 23)]), rng.choice([0, 59, rng.randint(0, 59)]), rng.choice([0, 59, rng.randint(0, 59)])


def rand_us(rng):
    return rng.choice([0, 0, 1, 5, 10, 999999, 100000, 500000, rng.randint(0, 999999)])


def rand_bytes_val(rng, maxlen=40, kind=None):
    n = rng.choice([0, 1, 2, 5, rng.randint(0, maxlen)])
    kind = kind or rng.choice(["bytes", "vec", "str", "string"])
    if kind in ("str", "string"):
        data = rng.choice([b"NULL", b"", rand_utf8(rng, n), rand_ascii(rng, n)])
    else:
        data = rng.choice([b"NULL", b"", bytes([0xfb]), bytes([0xfe, 0xff, 0x00]), bytes(rng.getrandbits(8) for _ in range(n))])
    return v_bytes(data, kind)


def wrap_opt(rng, v):
    r = rng.random()
    if r < 0.15:
        return v_some(v)
    if r < 0.3:
        return v_ref(v)
    if r < 0.33:
        return v_ref(v_some(v))
    return v


def value_for_col(rng, ty, fl, allow_null=True):
    """A value that a column of type ty can carry (same family), or NULL."""
    if allow_null and not (fl & F_NOT_NULL) and rng.random() < 0.15:
        return rng.choice([v_none("u8"), v_none("str"), v_none("i64"), v_myc_null()])
    if ty in INT_TYPES:
        kinds = kinds_fitting(ty, fl)
        r = rng.random()
        if kinds and r < 0.7:
            k = rng.choice(kinds)
            return wrap_opt(rng, v_int(k, rand_int(rng, k)))
        lo, hi = col_range(ty, fl)
        x = rng.choice([lo, hi, 0, rng.randint(lo, hi)])
        if r < 0.85:
            k = 'isize' if x < 0 or rng.random() < 0.5 and x <= 2**63 - 1 else 'usize'
            return v_int(k, x)
        if x <= 2**63 - 1 and not (fl & F_UNSIGNED and ty == T_LONGLONG and rng.random() < 0.5):
            return v_myc_int(x)
        return v_myc_uint(x) if (fl & F_UNSIGNED and ty == T_LONGLONG) else v_myc_int(min(x, 2**63 - 1))
    if ty == T_FLOAT:
        bits = rand_f32_bits(rng)
        return rng.choice([v_f32(bits), v_myc_float(bits)])
    if ty == T_DOUBLE:
        r = rng.random()
        if r < 0.3:
            return v_f32(rand_f32_bits(rng))
        bits = rand_f64_bits(rng)
        return rng.choice([v_f64(bits), v_myc_double(bits)])
    if ty in STR_TYPES:
        if rng.random() < 0.15:
            return v_myc_bytes(bytes(rng.getrandbits(8) for _ in range(rng.randint(0, 20))))
        return wrap_opt(rng, rand_bytes_val(rng))
    if ty == T_DATE:
        return v_date(*rand_date(rng))
    if ty in (T_DATETIME, T_TIMESTAMP):
        y, m, d = rand_date(rng)
        h, mi, s = rand_time(rng)
        us = rand_us(rng)
        if rng.random() < 0.2:
            return v_myc_date(y, m, d, h, mi, s, us)
        return v_datetime(y, m, d, h, mi, s, us)
    if ty == T_TIME:
        h, mi, s = rand_time(rng)
        days = rng.choice([0, 0, 1, 34, rng.randint(0, 34)])
        us = rand_us(rng)
        if rng.random() < 0.2:
            return v_myc_time(days, h, mi, s, us)
        return v_dur(days * 86400 + h * 3600 + mi * 60 + s, us)
    raise ValueError(ty)


ALL_COL_TYPES = INT_TYPES + [T_FLOAT, T_DOUBLE] + STR_TYPES + [T_DATE, T_DATETIME, T_TIMESTAMP, T_TIME]


def rand_col(rng, i, types=None):
    ty = rng.choice(types or ALL_COL_TYPES)
    fl = 0
    if ty in INT_TYPES and rng.random() < 0.5:
        fl |= F_UNSIGNED
    if rng.random() < 0.2:
        fl |= F_NOT_NULL
    return col("c%d" % i, ty, fl, table=rng.choice([b"t", b"", b"tbl"]))


def any_text_value(rng):
    """Any value; the text protocol carries every type in every column."""
    ty = rng.choice(ALL_COL_TYPES)
    return value_for_col(rng, ty, rng.choice([0, F_UNSIGNED]) if ty in INT_TYPES else 0)


# ------------------------------------------------------------------------------------------------
# writer programs
def rand_program(rng, maxops, binary, p_contra=0.0, simple_vals=False, cols_choices=(0, 1, 2, 3)):
    """Random program over the writer API that stays inside the typestate automaton.  Returns ops."""
    ops = []
    started = False
    while len(ops) < maxops:
        r = rng.random()
        last_chance = len(ops) >= maxops - 2
        if r < 0.55 and not last_chance:
            n = rng.choice(cols_choices)
            cols = [rand_col(rng, i, types=[T_LONG, T_VAR_STRING, T_LONGLONG] if simple_vals else None) for i in range(n)]
            ops.append(op_start(cols))
            started = True
            nrows = rng.choice([0, 1, 1, 2, 3])
            ended = False
            for ri in range(nrows):
                if len(ops) >= maxops:
                    break
                def mk(ci):
                    c = cols[ci]
                    return value_for_col(rng, c["ty"], c["fl"]) if binary else (value_for_col(rng, c["ty"], c["fl"]) if rng.random() < 0.7 else any_text_value(rng))
                contra = rng.random() < p_contra and n > 0
                style = rng.random()
                if n == 0:
                    ops.append(rng.choice([op_end_row(), op_write_row([]), op_write_row([v_int("u8", 1)])]))
                    if rng.random() < 0.3:
                        ops.insert(len(ops) - 1, op_write_col(v_int("u8", 9)))
                elif contra:
                    k = rng.choice([n - 1, n + 1]) if binary or rng.random() < 0.5 else n - 1
                    if style < 0.5:
                        ops.append(op_write_row([mk(min(ci, n - 1)) for ci in range(k)]))
                    else:
                        ops.extend(op_write_col(mk(min(ci, n - 1))) for ci in range(k))
                        ops.append(op_end_row())
                elif style < 0.45:
                    ops.append(op_write_row([mk(ci) for ci in range(n)]))
                elif style < 0.85 or ri != nrows - 1:
                    ops.extend(op_write_col(mk(ci)) for ci in range(n))
                    ops.append(op_end_row())
                else:
                    ops.extend(op_write_col(mk(ci)) for ci in range(n))  # last row closed by finish/drop
            fin = rng.random()
            if fin < 0.35:
                ops.append(op_finish())
                return ops
            if fin < 0.7 and not last_chance:
                ops.append(op_finish_one())
                continue
            if fin < 0.85:
                ops.append(op_finish_error(rng.choice(ERR_KINDS_SMALL), rand_ascii(rng, rng.randint(0, 12))))
                return ops
            ops.append(op_drop())
            return ops
        elif r < 0.7 and not last_chance:
            ops.append(op_complete_one(rng.choice([0, 1, 250, 251, 65535, 65536, rng.getrandbits(64)]), rng.choice([0, 1, 300, rng.getrandbits(64)])))
            started = True
        elif r < 0.8:
            ops.append(op_completed(rng.choice([0, 1, 250, 251, 2**24, rng.getrandbits(64)]), rng.choice([0, 7, 2**32, rng.getrandbits(64)])))
            return ops
        elif r < 0.88:
            ops.append(op_error(rng.choice(ERR_KINDS_SMALL), rand_ascii(rng, rng.randint(0, 12))))
            return ops
        elif started:
            ops.append(rng.choice([op_no_more_results(), op_drop()]))
            return ops
    if not started:
        ops.append(op_completed(0, 0))
    return ops  # the harness drops whatever is still alive


def rand_chunks(rng, total_hint=200):
    r = rng.random()
    if r < 0.25:
        return [], 0          # everything available
    if r < 0.45:
        return [], 1          # one byte at a time
    if r < 0.6:
        return [], rng.choice([2, 3, 4, 5, 7])
    return [rng.choice([1, 1, 2, 3, 4, 5, 8, 13, 40, 100]) for _ in range(rng.randint(1, 60))], rng.choice([0, 1, 3])


# ------------------------------------------------------------------------------------------------
def gen_C03(rng, tier):
    n = 260 if tier == "quick" else 4000
    maxops = 14 if tier == "quick" else 40
    out = []
    for i in range(n):
        c = Conv("C03-%05d" % i, mode=rng.choice(["lockstep", "lockstep", "pipelined"]),
                 shim="default_init" if i % 23 == 5 else "program")
        c.chunks, c.then = rand_chunks(rng)
        ncmd = rng.randint(1, 4)
        stmts = []
        for j in range(ncmd):
            r = rng.random()
            if r < 0.45:
                c.query("SELECT %d" % j, rand_program(rng, maxops, False, p_contra=0.05, simple_vals=True))
            elif r < 0.7:
                sid = rng.choice([1, 2, 7, 2**31, 2**32 - 1])
                c.prepare("SELECT ?", prep_ok(sid, [], [col("x", T_LONG)]) if rng.random() < 0.85 else prep_err(rng.choice(ERR_KINDS_SMALL)))
                if "err" not in c.prepares[-1]:
                    c.execute(sid, [], rand_program(rng, maxops, True, p_contra=0.05, simple_vals=True))
                    if rng.random() < 0.5:
                        c.cmd(com_close(sid))
            elif r < 0.8:
                if c.shim == "default_init":
                    c.cmd(com_init_db("db%d" % j)) if rng.random() < 0.5 else c.cmd(com_query("USE db%d" % j))
                elif rng.random() < 0.5:
                    c.init_db("db%d" % j, [rng.choice([op_init_ok(), op_init_err("ER_BAD_DB_ERROR", b"no such db")])])
                else:
                    c.query("USE `db%d`;" % j, [rng.choice([op_init_ok(), op_init_err("ER_DBACCESS_DENIED_ERROR", b"denied")])])
            elif r < 0.9:
                c.cmd(com_field_list())
            else:
                c.query(rng.choice(["SELECT @@max_allowed_packet", "select @@version_comment", "SELECT @@x"]))
            if rng.random() < 0.7:
                c.ping()  # sentinel
        c.ping()
        if rng.random() < 0.8:
            c.quit()
        out.append(c.build())
    return out
