"""Scenario generators, one family per property.  Each returns a list of scenario dicts (see
vt/proto.py: Conv.build()).  All randomness comes from the seeded rng handed in."""
import random
from .proto import *
from . import gens_big as GB
from . import gens_r2 as R2
from . import gens_r3 as R3
from . import gens_r4 as R4
from . import gens_r5 as R5
from . import gens_r6 as R6
from . import gens_r7 as R7

ERR_KINDS_SMALL = ["ER_NO", "ER_BAD_DB_ERROR", "ER_PARSE_ERROR", "ER_NO_SUCH_TABLE", "ER_DUP_ENTRY",
                   "ER_ACCESS_DENIED_ERROR", "ER_UNKNOWN_ERROR", "ER_LOCK_DEADLOCK"]


# ------------------------------------------------------------------------------------------------
# values
def rand_ascii(rng, n):
    return bytes(rng.choice(b"abcdefghijklmnopqrstuvwxyzABCDEFGHIJKLMNOPQRSTUVWXYZ0123456789 _-") for _ in range(n))


def rand_utf8(rng, nchars):
    out = []
    for _ in range(nchars):
        r = rng.random()
        if r < 0.6:
            cp = rng.randrange(0x20, 0x7f)
        elif r < 0.8:
            cp = rng.randrange(0x80, 0x800)
        elif r < 0.95:
            cp = rng.choice([rng.randrange(0x800, 0xd800), rng.randrange(0xe000, 0x10000)])
        else:
            cp = rng.randrange(0x10000, 0x110000)
        out.append(chr(cp))
    return ''.join(out).encode('utf-8')


INT_RANGE = {'i8': (-2**7, 2**7 - 1), 'u8': (0, 2**8 - 1), 'i16': (-2**15, 2**15 - 1), 'u16': (0, 2**16 - 1),
             'i32': (-2**31, 2**31 - 1), 'u32': (0, 2**32 - 1), 'i64': (-2**63, 2**63 - 1), 'u64': (0, 2**64 - 1),
             'isize': (-2**63, 2**63 - 1), 'usize': (0, 2**64 - 1)}


def boundary_ints(kind):
    lo, hi = INT_RANGE[kind]
    s = {lo, hi, 0, 1, lo + 1, hi - 1}
    for k in range(0, 65):
        for d in (-1, 0, 1):
            for sign in (1, -1):
                x = sign * (1 << k) + d
                if lo <= x <= hi:
                    s.add(x)
    return sorted(s)


def rand_int(rng, kind):
    lo, hi = INT_RANGE[kind]
    r = rng.random()
    if r < 0.4:
        return rng.choice(boundary_ints(kind))
    if r < 0.6:
        return rng.randint(max(lo, -300), min(hi, 300))
    return rng.randint(lo, hi)


def col_range(ty, fl):
    w = INT_WIDTH[ty] * 8
    return (0, 2**w - 1) if fl & F_UNSIGNED else (-2**(w - 1), 2**(w - 1) - 1)


def kinds_fitting(ty, fl):
    """Rust integer kinds whose whole range fits the column (must-accept set of C15)."""
    lo, hi = col_range(ty, fl)
    return [k for k, (a, b_) in INT_RANGE.items() if k not in ('isize', 'usize') and lo <= a and b_ <= hi]


SPECIAL_F64 = [0x0000000000000000, 0x8000000000000000, 0x3ff0000000000000, 0xbff0000000000000, 0x7fefffffffffffff,
               0xffefffffffffffff, 0x0010000000000000, 0x0000000000000001, 0x000fffffffffffff, 0x3fb999999999999a,
               0x4340000000000000, 0x4340000000000001, 0x433fffffffffffff, 0x3ff0000000000001, 0x400921fb54442d18]
SPECIAL_F32 = [0x00000000, 0x80000000, 0x3f800000, 0xbf800000, 0x7f7fffff, 0xff7fffff, 0x00800000, 0x00000001,
               0x007fffff, 0x3dcccccd, 0x4b800000, 0x4b800001, 0x4b7fffff, 0x3f800001, 0x40490fdb]


def rand_f64_bits(rng, finite=True):
    if rng.random() < 0.4:
        return rng.choice(SPECIAL_F64)
    while True:
        x = rng.getrandbits(64)
        if not finite or ((x >> 52) & 0x7ff) != 0x7ff:
            return x


def rand_f32_bits(rng, finite=True):
    if rng.random() < 0.4:
        return rng.choice(SPECIAL_F32)
    while True:
        x = rng.getrandbits(32)
        if not finite or ((x >> 23) & 0xff) != 0xff:
            return x


def days_in(y, m):
    if m in (1, 3, 5, 7, 8, 10, 12):
        return 31
    if m in (4, 6, 9, 11):
        return 30
    return 29 if (y % 4 == 0 and y % 100 != 0) or y % 400 == 0 else 28


def rand_date(rng):
    y = rng.choice([0, 1, 4, 100, 400, 1900, 1970, 2000, 2023, 2024, 9999, rng.randint(0, 9999)])
    m = rng.randint(1, 12)
    d = rng.choice([1, days_in(y, m), rng.randint(1, days_in(y, m))])
    return y, m, d


def rand_time(rng):
    return rng.choice([0, 23, rng.randint(0, 23)]), rng.choice([0, 59, rng.randint(0, 59)]), rng.choice([0, 59, rng.randint(0, 59)])


def rand_us(rng):
    return rng.choice([0, 0, 1, 5, 10, 999999, 100000, 500000, rng.randint(0, 999999)])


def rand_bytes_val(rng, maxlen=40, kind=None):
    n = rng.choice([0, 1, 2, 5, rng.randint(0, maxlen)])
    kind = kind or rng.choice(["bytes", "vec", "str", "string"])
    if kind in ("str", "string"):
        data = rng.choice([b"NULL", b"", rand_utf8(rng, n), rand_ascii(rng, n)])
    else:
        data = rng.choice([b"NULL", b"", bytes([0xfb]), bytes([0xfe, 0xff, 0x00]), bytes(rng.getrandbits(8) for _ in range(n))])
    return v_bytes(data, kind)


def wrap_opt(rng, v):
    r = rng.random()
    if r < 0.15:
        return v_some(v)
    if r < 0.3:
        return v_ref(v)
    if r < 0.33:
        return v_ref(v_some(v))
    return v


def value_for_col(rng, ty, fl, allow_null=True):
    """A value that a column of type ty can carry (same family), or NULL."""
    if allow_null and not (fl & F_NOT_NULL) and rng.random() < 0.15:
        return rng.choice([v_none("u8"), v_none("str"), v_none("i64"), v_myc_null(), v_ref(v_none("i32")), v_ref(v_myc_null())])
    if ty in INT_TYPES:
        kinds = kinds_fitting(ty, fl)
        r = rng.random()
        if kinds and r < 0.7:
            k = rng.choice(kinds)
            return wrap_opt(rng, v_int(k, rand_int(rng, k)))
        lo, hi = col_range(ty, fl)
        x = rng.choice([lo, hi, 0, rng.randint(lo, hi)])
        if r < 0.85:
            k = 'isize' if x < 0 or rng.random() < 0.5 and x <= 2**63 - 1 else 'usize'
            return v_int(k, x)
        if x <= 2**63 - 1 and not (fl & F_UNSIGNED and ty == T_LONGLONG and rng.random() < 0.5):
            return v_myc_int(x)
        return v_myc_uint(x) if (fl & F_UNSIGNED and ty == T_LONGLONG) else v_myc_int(min(x, 2**63 - 1))
    if ty == T_FLOAT:
        bits = rand_f32_bits(rng)
        return rng.choice([v_f32(bits), v_myc_float(bits)])
    if ty == T_DOUBLE:
        r = rng.random()
        if r < 0.3:
            return v_f32(rand_f32_bits(rng))
        bits = rand_f64_bits(rng)
        return rng.choice([v_f64(bits), v_myc_double(bits)])
    if ty in STR_TYPES:
        if rng.random() < 0.15:
            return v_myc_bytes(bytes(rng.getrandbits(8) for _ in range(rng.randint(0, 20))))
        return wrap_opt(rng, rand_bytes_val(rng))
    if ty == T_DATE:
        return v_date(*rand_date(rng))
    if ty in (T_DATETIME, T_TIMESTAMP):
        y, m, d = rand_date(rng)
        h, mi, s = rand_time(rng)
        us = rand_us(rng)
        if rng.random() < 0.2:
            return v_myc_date(y, m, d, h, mi, s, us)
        return v_datetime(y, m, d, h, mi, s, us)
    if ty == T_TIME:
        h, mi, s = rand_time(rng)
        days = rng.choice([0, 0, 1, 34, rng.randint(0, 34)])
        us = rand_us(rng)
        if rng.random() < 0.2:
            return v_myc_time(days, h, mi, s, us)
        return v_dur(days * 86400 + h * 3600 + mi * 60 + s, us)
    raise ValueError(ty)


ALL_COL_TYPES = INT_TYPES + [T_FLOAT, T_DOUBLE] + STR_TYPES + [T_DATE, T_DATETIME, T_TIMESTAMP, T_TIME]


def rand_col(rng, i, types=None):
    ty = rng.choice(types or ALL_COL_TYPES)
    fl = 0
    if ty in INT_TYPES and rng.random() < 0.5:
        fl |= F_UNSIGNED
    if rng.random() < 0.2:
        fl |= F_NOT_NULL
    return col("c%d" % i, ty, fl, table=rng.choice([b"t", b"", b"tbl"]))


def any_text_value(rng):
    """Any value; the text protocol carries every type in every column."""
    ty = rng.choice(ALL_COL_TYPES)
    return value_for_col(rng, ty, rng.choice([0, F_UNSIGNED]) if ty in INT_TYPES else 0)


# ------------------------------------------------------------------------------------------------
# writer programs
def rand_program(rng, maxops, binary, p_contra=0.0, simple_vals=False, cols_choices=(0, 1, 2, 3)):
    """Random program over the writer API that stays inside the typestate automaton.  Returns ops."""
    ops = []
    started = False
    while len(ops) < maxops:
        r = rng.random()
        last_chance = len(ops) >= maxops - 2
        if r < 0.55 and not last_chance:
            n = rng.choice(cols_choices)
            cols = [rand_col(rng, i, types=[T_LONG, T_VAR_STRING, T_LONGLONG] if simple_vals else None) for i in range(n)]
            ops.append(op_start(cols))
            started = True
            nrows = rng.choice([0, 1, 1, 2, 3])
            ended = False
            for ri in range(nrows):
                if len(ops) >= maxops:
                    break
                def mk(ci):
                    c = cols[ci]
                    return value_for_col(rng, c["ty"], c["fl"]) if binary else (value_for_col(rng, c["ty"], c["fl"]) if rng.random() < 0.7 else any_text_value(rng))
                contra = rng.random() < p_contra and n > 0
                style = rng.random()
                if n == 0:
                    ops.append(rng.choice([op_end_row(), op_write_row([]), op_write_row([v_int("u8", 1)])]))
                    if rng.random() < 0.3:
                        ops.insert(len(ops) - 1, op_write_col(v_int("u8", 9)))
                elif contra:
                    k = rng.choice([n - 1, n + 1]) if binary or rng.random() < 0.5 else n - 1
                    if style < 0.5:
                        ops.append(op_write_row([mk(min(ci, n - 1)) for ci in range(k)]))
                    else:
                        ops.extend(op_write_col(mk(min(ci, n - 1))) for ci in range(k))
                        ops.append(op_end_row())
                elif style < 0.45:
                    ops.append(op_write_row([mk(ci) for ci in range(n)]))
                elif style < 0.85 or ri != nrows - 1:
                    ops.extend(op_write_col(mk(ci)) for ci in range(n))
                    ops.append(op_end_row())
                else:
                    ops.extend(op_write_col(mk(ci)) for ci in range(n))  # last row closed by finish/drop
            fin = rng.random()
            if fin < 0.35:
                ops.append(op_finish())
                return ops
            if fin < 0.7 and not last_chance:
                ops.append(op_finish_one())
                continue
            if fin < 0.85:
                ops.append(op_finish_error(rng.choice(ERR_KINDS_SMALL), rand_ascii(rng, rng.randint(0, 12))))
                return ops
            ops.append(op_drop())
            return ops
        elif r < 0.7 and not last_chance:
            ops.append(op_complete_one(rng.choice([0, 1, 250, 251, 65535, 65536, rng.getrandbits(64)]), rng.choice([0, 1, 300, rng.getrandbits(64)])))
            started = True
        elif r < 0.8:
            ops.append(op_completed(rng.choice([0, 1, 250, 251, 2**24, rng.getrandbits(64)]), rng.choice([0, 7, 2**32, rng.getrandbits(64)])))
            return ops
        elif r < 0.88:
            ops.append(op_error(rng.choice(ERR_KINDS_SMALL), rand_ascii(rng, rng.randint(0, 12))))
            return ops
        elif started:
            ops.append(rng.choice([op_no_more_results(), op_drop()]))
            return ops
    if not started:
        ops.append(op_completed(0, 0))
    return ops  # the harness drops whatever is still alive


def rand_chunks(rng, total_hint=200):
    r = rng.random()
    if r < 0.25:
        return [], 0          # everything available
    if r < 0.45:
        return [], 1          # one byte at a time
    if r < 0.6:
        return [], rng.choice([2, 3, 4, 5, 7])
    return [rng.choice([1, 1, 2, 3, 4, 5, 8, 13, 40, 100]) for _ in range(rng.randint(1, 60))], rng.choice([0, 1, 3])


# ------------------------------------------------------------------------------------------------
def gen_C03(rng, tier):
    n = 260 if tier == "quick" else 4000
    maxops = 14 if tier == "quick" else 40
    out = []
    for i in range(n):
        c = Conv("C03-%05d" % i, mode=rng.choice(["lockstep", "lockstep", "pipelined"]),
                 shim="default_init" if i % 23 == 5 else "program")
        c.chunks, c.then = rand_chunks(rng)
        ncmd = rng.randint(1, 4)
        stmts = []
        for j in range(ncmd):
            r = rng.random()
            if r < 0.45:
                c.query("SELECT %d" % j, rand_program(rng, maxops, False, p_contra=0.05, simple_vals=True))
            elif r < 0.7:
                sid = rng.choice([1, 2, 7, 2**31, 2**32 - 1])
                c.prepare("SELECT ?", prep_ok(sid, [], [col("x", T_LONG)]) if rng.random() < 0.85 else prep_err(rng.choice(ERR_KINDS_SMALL)))
                if "err" not in c.prepares[-1]:
                    c.execute(sid, [], rand_program(rng, maxops, True, p_contra=0.05, simple_vals=True))
                    if rng.random() < 0.5:
                        c.cmd(com_close(sid))
            elif r < 0.8:
                if c.shim == "default_init":
                    c.cmd(com_init_db("db%d" % j)) if rng.random() < 0.5 else c.cmd(com_query("USE db%d" % j))
                elif rng.random() < 0.5:
                    c.init_db("db%d" % j, [rng.choice([op_init_ok(), op_init_err("ER_BAD_DB_ERROR", b"no such db")])])
                else:
                    c.query("USE `db%d`;" % j, [rng.choice([op_init_ok(), op_init_err("ER_DBACCESS_DENIED_ERROR", b"denied")])])
            elif r < 0.9:
                c.cmd(com_field_list())
            else:
                c.query(rng.choice(["SELECT @@max_allowed_packet", "select @@version_comment", "SELECT @@x"]))
            if rng.random() < 0.7:
                c.ping()  # sentinel
        c.ping()
        if rng.random() < 0.8:
            c.quit()
        out.append(c.build())
    # resultsets around the one-byte column-count boundary; closing ids the server does not know
    for n in [250, 251, 252, 256, 300]:
        for binary in (False, True):
            c = Conv("C03-wide%d-%s" % (n, "b" if binary else "t"), mode="lockstep")
            cols = [col("c%d" % k, T_LONG) for k in range(n)]
            ops = [op_start(cols), op_write_row([v_int("i32", k) for k in range(n)]), op_finish()]
            if binary:
                c.prepare("S", prep_ok(1, [], cols))
                c.execute(1, [], ops)
            else:
                c.query("Q", ops)
            c.ping()
            c.quit()
            out.append(c.build())
    for i in range(6):
        c = Conv("C03-close%d" % i, mode=["lockstep", "pipelined"][i % 2])
        c.prepare("S", prep_ok(4, [], []))
        c.cmd(com_close(4))
        c.cmd(com_close(4))
        c.cmd(com_close(1000 + i))
        c.ping()
        c.query("Q", [op_completed(1, 1)])
        c.ping()
        c.quit()
        out.append(c.build())
    return out


# ------------------------------------------------------------------------------------------------
NEAR_MISS_TEXTS = [b"SELECT @@max_allowed_packet", b"select @@max_allowed_packet", b"SELECT @@version", b"select @@x",
                   b"SELECT @x", b"SELECT@@x", b"Select @@x", b"SELECT  @@x", b" SELECT @@x", b"SELECT @", b"SELECT @@",
                   b"SELECT 1", b"USER()", b"use", b"usedb", b"USE", b"USEd", b"USAGE", b"us", b"", b"U", b"SELECT USE db",
                   b"select use", b"INSERT INTO t VALUES ('USE x')", b"-- USE db", b"SHOW TABLES", b"\x00", b"S", b"SELECT @@\x00"]
USE_OK = [b"USE db", b"use db", b"USE `db`", b"use `db`;", b"USE db;", b"USE  db", b"USE db ", b"USE db; ", b"use \tdb;\n",
          b"USE `my_db1`;  ", b"USE a", b"use information_schema", b"USE d-b.x", b"USE `d-b`", b"USE \xc3\xa9"]
USE_UNJUDGED = [b"USE ", b"USE `a b`", b"USE a b", b"USE db ;", b"USE db;;", b"USE ``", b"USE `", b"USE ;", b"Use db", b"uSE db",
                b"USE `a`b`", b"USE a;b"]


def invalid_utf8(rng):
    base = rand_ascii(rng, rng.randint(0, 8))
    bad = rng.choice([b"\xff", b"\xc0\x80", b"\xe0\x80\x80", b"\xed\xa0\x80", b"\xf4\x90\x80\x80", b"\x80", b"\xc3", b"\xe2\x82", b"\xf0\x9f\x98"])
    pos = rng.randint(0, len(base))
    return base[:pos] + bad + base[pos:]


def gen_C02(rng, tier):
    n = 220 if tier == "quick" else 3000
    maxcmd = 12 if tier == "quick" else 60
    out = []
    for i in range(n):
        c = Conv("C02-%05d" % i, mode=rng.choice(["lockstep", "pipelined", "pipelined"]))
        c.chunks, c.then = rand_chunks(rng)
        live = []
        ncmd = rng.randint(2, maxcmd)
        fatal = False
        for j in range(ncmd):
            r = rng.random()
            if r < 0.22:
                t = rng.choice(NEAR_MISS_TEXTS) if rng.random() < 0.6 else rng.choice([rand_utf8(rng, rng.randint(0, 30)), rand_ascii(rng, rng.randint(0, 40))])
                if t[:9] in (b"SELECT @@", b"select @@") or t[:4] in (b"USE ", b"use "):
                    if t[:4] in (b"USE ", b"use "):
                        c.query(t, [op_init_ok()])
                    else:
                        c.query(t)
                else:
                    c.query(t, [op_completed(j, 0)])
            elif r < 0.36:
                t = rng.choice(USE_OK + USE_UNJUDGED) if rng.random() < 0.8 else (rng.choice([b"USE ", b"use "]) + rand_ascii(rng, rng.randint(1, 12)).replace(b" ", b"_"))
                c.query(t, [rng.choice([op_init_ok(), op_init_ok(), op_init_err("ER_BAD_DB_ERROR")])])
            elif r < 0.44:
                name = rng.choice([b"db", b"", b"`q`", b"a;", b" spaced ", rand_utf8(rng, rng.randint(0, 10)), b"USE x"])
                c.init_db(name, [op_init_ok()])
            elif r < 0.56:
                sid = rng.choice([1, 2, 3, 255, 256, 65536, 2**31 - 1, 2**31, 2**32 - 1])
                text = rng.choice([b"SELECT ?", b"", b"USE x", b"SELECT @@x", rand_utf8(rng, rng.randint(0, 20))])
                ok = rng.random() < 0.85
                c.prepare(text, prep_ok(sid, [], [col("x", T_LONG)]) if ok else prep_err("ER_PARSE_ERROR"))
                if ok and sid not in live:
                    live.append(sid)
            elif r < 0.68 and live:
                c.execute(rng.choice(live), [], [op_completed(1, j)])
            elif r < 0.76:
                sid = rng.choice(live + [9, 77, 2**32 - 2]) if live else rng.choice([9, 77])
                c.cmd(com_close(sid))
                if sid in live:
                    live.remove(sid)
            elif r < 0.8 and live:
                c.cmd(com_long_data(rng.choice(live), 0, rand_ascii(rng, rng.randint(0, 10))))
            elif r < 0.88:
                c.ping()
            elif r < 0.93:
                c.cmd(com_field_list(rng.choice([b"t", b"", b"tbl"]), rng.choice([b"", b"%"])))
            elif r < 0.96 and j > 1:
                # a text that must never reach the shim; ends the connection
                kind = rng.random()
                bad = invalid_utf8(rng)
                if kind < 0.4:
                    c.cmd(com_query(bad))
                elif kind < 0.6:
                    c.cmd(com_query(rng.choice([b"USE ", b"use "]) + bad))
                elif kind < 0.8:
                    c.cmd(com_prepare(bad))
                else:
                    c.cmd(com_init_db(bad))
                fatal = True
                c.ping()
                break
            else:
                c.ping()
            if c.mode == "lockstep" or rng.random() < 0.3:
                c.ping()
        if not fatal and rng.random() < 0.7:
            c.quit()
            if rng.random() < 0.3:
                c.query("after quit", [op_completed(0, 0)])
        out.append(c.build())
    return out


# ------------------------------------------------------------------------------------------------
def rows_program(nrows, binary=False, ncols=1):
    cols = [col("c%d" % i, T_LONG) for i in range(ncols)]
    ops = [op_start(cols)]
    for r in range(nrows):
        ops.append(op_write_row([v_int("i32", (r * 7 + i) % 1000 - 500) for i in range(ncols)]))
    ops.append(op_finish())
    return ops


def gen_C05(rng, tier):
    out = []
    lens = [1, 2, 3, 254, 255, 256, 257, 511, 512, 513, 700]
    # every request id with a short response; boundary ids with long responses
    k = 0
    for seq in range(256):
        c = Conv("C05-s%03d" % seq, mode="lockstep", hs_seq=(seq + 1) % 256 if seq % 5 == 0 else 1)
        c.query("Q", rows_program(rng.choice([0, 1, 2, 5])), seq0=seq)
        c.ping(seq0=(seq * 7 + 3) % 256)
        c.prepare("P", prep_ok(3, [col("p", T_LONG)], [col("c0", T_LONG)]), seq0=seq)
        c.execute(3, [p_int(T_LONG, 5)], rows_program(2, True), seq0=255 - seq)
        c.cmd(com_field_list(), seq0=seq)
        c.query("USE x", [op_init_ok()], seq0=(seq + 128) % 256)
        c.quit(seq0=seq)
        out.append(c.build())
    seqs = [0, 1, 2, 127, 128, 250, 253, 254, 255] if tier == "quick" else sorted(set(list(range(0, 256, 5)) + [254, 255]))
    for seq in seqs:
        for n in (lens if tier != "quick" else [254, 255, 256, 257, 513]):
            c = Conv("C05-l%03d-%d" % (seq, n), mode=rng.choice(["lockstep", "pipelined"]))
            # response = 1 (count) + 1 (def) + 1 (eof) + n rows + 1 eof packets
            c.query("Q", rows_program(n), seq0=seq)
            c.ping(seq0=seq)
            c.quit()
            out.append(c.build())
            k += 1
    return out


def gen_C14(rng, tier):
    out = []
    edge = [0, 1, 250, 251, 252, 253, 254, 255, 256, 2**16 - 1, 2**16, 2**16 + 1, 2**24 - 1, 2**24, 2**24 + 1, 2**32 - 1, 2**32,
            2**63 - 1, 2**63, 2**64 - 2, 2**64 - 1]
    pairs = [(a, b_) for a in edge for b_ in edge]
    rng.shuffle(pairs)
    extra = 400 if tier == "quick" else 6000
    pairs += [(rng.getrandbits(rng.choice([8, 16, 24, 32, 48, 64])), rng.getrandbits(rng.choice([8, 16, 24, 32, 64]))) for _ in range(extra)]
    i = 0
    sid = 0
    while i < len(pairs):
        c = Conv("C14-%04d" % sid, mode=rng.choice(["lockstep", "pipelined"]))
        sid += 1
        c.chunks, c.then = rand_chunks(rng)
        c.prepare("P", prep_ok(1, [], []))
        for _ in range(rng.randint(2, 8)):
            if i >= len(pairs):
                break
            chain = rng.choice([1, 1, 2, 3, 5])
            ops = []
            for j in range(chain):
                a, b_ = pairs[i % len(pairs)]
                i += 1
                ops.append(op_complete_one(a, b_) if j < chain - 1 or rng.random() < 0.3 else op_completed(a, b_))
            if ops[-1]["op"] == "complete_one":
                ops.append(rng.choice([op_no_more_results(), op_drop()]))
            if rng.random() < 0.5:
                c.query("DML", ops)
            else:
                c.execute(1, [], ops)
        # zero-column resultsets with k rows
        for k in ([0, 1, 2, 3, 250, 251, 300] if tier == "quick" else [0, 1, 2, 250, 251, 252, 1000, 3000]):     # (65,536 and more rows: R4.c14_extra, one event each)
            if rng.random() < (0.25 if tier == "quick" else 0.5):
                ops = [op_start([])]
                for r in range(k):
                    ops.append(rng.choice([op_end_row(), op_write_row([]), op_end_row()]))
                ops.append(rng.choice([op_finish(), op_drop(), op_finish_one()]))
                if ops[-1]["op"] == "finish_one":
                    ops.append(op_no_more_results())
                if rng.random() < 0.5:
                    c.query("Z", ops)
                else:
                    c.execute(1, [], ops)
        # several zero-column resultsets in one response (each counts its own rows)
        ops = []
        for k in [2, 3, 0, 1]:
            ops.append(op_start([]))
            ops += [rng.choice([op_end_row(), op_write_row([])]) for _ in range(k)]
            ops.append(op_finish_one())
        ops.append(op_no_more_results())
        c.query("ZZ", ops) if rng.random() < 0.5 else c.execute(1, [], ops)
        c.ping()
        c.quit()
        out.append(c.build())
    return out


def gen_C13(rng, tier):
    import json as _json, os as _os
    ref = _json.load(open(_os.path.join(_os.path.dirname(_os.path.dirname(_os.path.abspath(__file__))), 'spec', 'data', 'mysql_errors_ref.json')))
    kinds = sorted(ref)
    msgs = [b"", b"plain message", b"x" * 600, b"\xff\xfe bad utf8 \x80", b"has # hash #42000", b"nul\x00inside", b"\xff", b"#", b"#HY000", b"\xc3\xa9t\xc3\xa9",
            # boundary positions: nothing is trimmed, terminated or escaped at either end of the message
            b"trail\x00", b"\x00", b"\x00lead", b"trail ", b" lead", b"trail\n", b"trail\r\n", b"trail\xff", b"a\x00\x00", b"\x00\x00", b"tab\t", b"quote'\"", b"back\\"]
    sites = ["query", "prepare", "init", "use", "after0", "after1", "afterN", "bin_after1", "second", "exec", "zero_cols", "bin_partial"]
    out = []
    out.append({"id": "C13-table", "kind": "errtable"})
    per = 16
    reps = 1 if tier == "quick" else 5
    jobs = []
    for rep in range(reps):
        for k in kinds:
            jobs.append((k, rng.choice(sites) if rep or tier == "quick" else sites[len(jobs) % len(sites)], rng.choice(msgs)))
    if tier != "quick":
        for k in rng.sample(kinds, 60):
            for s in sites:
                jobs.append((k, s, rng.choice(msgs)))
    for n in range(0, len(jobs), per):
        c = Conv("C13-%04d" % (n // per), mode=rng.choice(["lockstep", "pipelined"]))
        c.prepare("P", prep_ok(1, [], [col("a", T_LONG)]))
        for (k, site, msg) in jobs[n:n + per]:
            cols = [col("a", T_LONG)]
            if site == "query":
                c.query("Q", [op_error(k, msg)])
            elif site == "exec":
                c.execute(1, [], [op_error(k, msg)])
            elif site == "prepare":
                c.prepare("BAD", prep_err(k, msg))
            elif site == "init":
                c.init_db("db", [op_init_err(k, msg)])
            elif site == "use":
                c.query("USE db", [op_init_err(k, msg)])
            elif site == "after0":
                c.query("Q", [op_start(cols), op_finish_error(k, msg)])
            elif site == "after1":
                c.query("Q", [op_start(cols), op_write_row([v_int("i32", 1)]), op_finish_error(k, msg)])
            elif site == "afterN":
                c.query("Q", [op_start(cols)] + [op_write_row([v_int("i32", i)]) for i in range(rng.randint(2, 9))] + [op_finish_error(k, msg)])
            elif site == "bin_after1":
                c.execute(1, [], [op_start(cols), op_write_col(v_int("i32", 1)), op_finish_error(k, msg)])
            elif site == "zero_cols":
                c.query("Q", [op_start([]), op_end_row(), op_end_row(), op_finish_error(k, msg)])
            elif site == "bin_partial":
                cols2 = [col("a", T_LONG), col("b", T_VAR_STRING)]
                c.execute(1, [], [op_start(cols2), op_write_row([v_int("i32", 1), v_bytes(b"x", "str")]), op_write_col(v_int("i32", 2)),
                                  op_write_col(v_bytes(b"y", "str")), op_finish_error(k, msg)])
            elif site == "second":
                c.query("Q", [op_complete_one(1, 2), op_start([]), op_end_row(), op_finish_one(), op_error(k, msg)])
        c.ping()
        c.quit()
        out.append(c.build())
    return out


def gen_C09(rng, tier):
    out = []
    name_lens = [0, 1, 250, 251, 252, 255, 256, 1000] + ([65535, 65536, 70000] if tier != "quick" else [65535, 65536])
    counts = [0, 1, 2, 3, 250, 251, 252, 300] + ([1000] if tier != "quick" else [])
    all_types = ALL_COL_TYPES + [T_NULL, T_YEAR]
    flagsets = [0, 1, 2, 4, 8, 16, 32, 64, 128, 256, 512, 1024, 2048, 4096, 8192, 16384, 32768, 0xffff, 0x1234, 33]

    def mkname(n):
        r = rng.random()
        if n == 0:
            return b""
        if r < 0.5:
            return rand_ascii(rng, n)
        s = rand_utf8(rng, n)
        while len(s) > n:
            s = s[:-1]
        while True:
            try:
                s.decode()
                break
            except UnicodeDecodeError:
                s = s[:-1]
        return s + b"x" * (n - len(s))

    sid = 0
    # many small descriptors with all types / flags
    nsmall = 60 if tier == "quick" else 600
    for i in range(nsmall):
        c = Conv("C09-s%04d" % i, mode=rng.choice(["lockstep", "pipelined"]))
        for j in range(rng.randint(1, 5)):
            ncol = rng.choice([0, 1, 2, 3, 5, 8])
            cols = [{"t": b(mkname(rng.choice([0, 1, 3, 10]))), "n": b(mkname(rng.choice([0, 1, 5, 20, 64]))),
                     "ty": rng.choice(all_types), "fl": rng.choice(flagsets)} for _ in range(ncol)]
            npar = rng.choice([0, 1, 2, 4])
            params = [{"t": b(mkname(rng.choice([0, 2]))), "n": b(mkname(rng.choice([0, 1, 4]))),
                       "ty": rng.choice(all_types), "fl": rng.choice(flagsets)} for _ in range(npar)]
            stmt = rng.choice([0, 1, 2, 2**16, 2**31, 2**32 - 1, rng.getrandbits(32)])
            if rng.random() < 0.5:
                c.prepare("P%d" % j, prep_ok(stmt, params, cols))
            else:
                c.query("Q%d" % j, [op_start(cols), rng.choice([op_finish(), op_drop(), op_finish_error("ER_NO", b"x")])])
            if rng.random() < 0.4:
                c.cmd(com_field_list())
        c.ping()
        c.quit()
        out.append(c.build())
    # long names / many columns
    for n in name_lens:
        c = Conv("C09-n%d" % n, mode="lockstep")
        cols = [{"t": b(mkname(n)), "n": b(mkname(n)), "ty": T_VAR_STRING, "fl": 0}, col("z", T_LONG)]
        c.query("Q", [op_start(cols), op_finish()])
        if n < 60000:
            c.prepare("P", prep_ok(9, cols, cols))
        c.ping()
        c.quit()
        out.append(c.build())
    for n in counts:
        c = Conv("C09-c%d" % n, mode="lockstep")
        cols = [{"t": b(b"t"), "n": b("c%d" % i), "ty": rng.choice(ALL_COL_TYPES), "fl": rng.choice([0, 1, 32, 33])} for i in range(n)]
        c.query("Q", [op_start(cols), op_finish()])
        c.prepare("P", prep_ok(n, cols[:n // 2], cols))
        c.ping()
        c.quit()
        out.append(c.build())
    return out


# ------------------------------------------------------------------------------------------------
def all_value_kinds(rng):
    """one value of every ToMysqlValue implementor class"""
    vs = []
    for k in INT_RANGE:
        vs.append(v_int(k, rand_int(rng, k)))
    vs += [v_f32(rand_f32_bits(rng)), v_f64(rand_f64_bits(rng))]
    for kind in ("bytes", "vec", "str", "string"):
        vs.append(rand_bytes_val(rng, 40, kind))
    vs.append(v_date(*rand_date(rng)))
    y, m, d = rand_date(rng)
    h, mi, s = rand_time(rng)
    vs.append(v_datetime(y, m, d, h, mi, s, rand_us(rng)))
    vs.append(v_dur(rng.choice([0, 1, 59, 60, 3599, 3600, 86399, 86400, 34 * 86400 + 86399, rng.randint(0, 3000000)]), rand_us(rng)))
    vs += [v_none("u8"), v_none("str"), v_none("f64"), v_none("date"), v_myc_null()]
    vs.append(v_some(rng.choice(vs[:20])))
    vs.append(v_ref(rng.choice(vs[:20])))
    vs += [v_myc_int(rand_int(rng, "i64")), v_myc_uint(rand_int(rng, "u64")), v_myc_float(rand_f32_bits(rng)),
           v_myc_double(rand_f64_bits(rng)), v_myc_bytes(bytes(rng.getrandbits(8) for _ in range(rng.randint(0, 30)))),
           v_myc_date(y, m, d, h, mi, s, rand_us(rng)), v_myc_time(rng.randint(0, 34), h, mi, s, rand_us(rng))]
    return vs


def gen_C06(rng, tier):
    out = []
    # (a) direct text encodings: boundary sweep for every integer kind, floats, dates
    cases = []
    dummy = col("x", T_VAR_STRING)
    for k in INT_RANGE:
        xs = boundary_ints(k)
        if tier == "quick":
            xs = rng.sample(xs, min(len(xs), 60))
        for x in xs:
            cases.append({"v": v_int(k, x), "col": dummy, "mode": "text"})
    for bits in SPECIAL_F64 + [rand_f64_bits(rng) for _ in range(150 if tier == "quick" else 4000)]:
        if ((bits >> 52) & 0x7ff) != 0x7ff:
            cases.append({"v": v_f64(bits), "col": dummy, "mode": "text"})
    for bits in SPECIAL_F32 + [rand_f32_bits(rng) for _ in range(150 if tier == "quick" else 4000)]:
        if ((bits >> 23) & 0xff) != 0xff:
            cases.append({"v": v_f32(bits), "col": dummy, "mode": "text"})
    years = [0, 1, 4, 100, 400, 1900, 2000, 2024, 9999] if tier == "quick" else [0, 1, 4, 100, 400, 1900, 2000, 2023, 2024, 9999]
    for y in years:
        for m in range(1, 13):
            for d in ([1, days_in(y, m)] if tier == "quick" else range(1, days_in(y, m) + 1)):
                cases.append({"v": v_date(y, m, d), "col": dummy, "mode": "text"})
    for _ in range(200 if tier == "quick" else 5000):
        y, m, d = rand_date(rng)
        h, mi, s = rand_time(rng)
        cases.append({"v": v_datetime(y, m, d, h, mi, s, rand_us(rng)), "col": dummy, "mode": "text"})
        cases.append({"v": v_dur(rng.choice([0, 59, 3600, 86399, 86400, 360000, 3020399, rng.randint(0, 4000000)]), rand_us(rng)), "col": dummy, "mode": "text"})
    for n in [0, 1, 250, 251, 252, 65535, 65536] + ([70000] if tier != "quick" else []):
        data = bytes((i * 31 + n) % 256 for i in range(n))
        cases.append({"v": v_bytes(data, "bytes"), "col": dummy, "mode": "text"})
    for i in range(0, len(cases), 400):
        out.append({"id": "C06-enc%03d" % (i // 400), "kind": "encode", "cases": cases[i:i + 400]})
    # (b) through the real connection: rows of mixed types in 1..40 column layouts
    nconv = 60 if tier == "quick" else 900
    for i in range(nconv):
        c = Conv("C06-r%04d" % i, mode=rng.choice(["lockstep", "pipelined"]))
        c.chunks, c.then = rand_chunks(rng)
        for q in range(rng.randint(1, 3)):
            ncol = rng.choice([1, 1, 2, 3, 5, 8, 20, 40])
            cols = [rand_col(rng, j) for j in range(ncol)]
            nrow = rng.choice([1, 2, 3, 5] if ncol > 8 else [1, 2, 5, 10, 50])
            ops = [op_start(cols)]
            for r in range(nrow):
                vals = [any_text_value(rng) if rng.random() < 0.5 else value_for_col(rng, cols[j]["ty"], cols[j]["fl"]) for j in range(ncol)]
                if r == 0 and q == 0 and ncol >= 20:
                    pool = all_value_kinds(rng)
                    vals = [pool[j % len(pool)] for j in range(ncol)]
                if rng.random() < 0.5:
                    ops.append(op_write_row(vals))
                else:
                    ops += [op_write_col(v) for v in vals] + [op_end_row()]
            ops.append(op_finish())
            c.query("SELECT %d" % q, ops)
        c.ping()
        c.quit()
        out.append(c.build())
    return out


BAD_PAIRS = None


def gen_C07(rng, tier):
    out = []
    nconv = 70 if tier == "quick" else 1000
    for i in range(nconv):
        c = Conv("C07-r%04d" % i, mode=rng.choice(["lockstep", "pipelined"]))
        c.chunks, c.then = rand_chunks(rng)
        ncol = rng.choice([1, 2, 3, 5, 6, 7, 8, 9, 14, 15, 16, 17, 30, 62, 63, 64, 65, 66] + ([130, 300, 600] if i % 9 == 0 else []))
        cols = [rand_col(rng, j) for j in range(ncol)]
        c.prepare("SELECT ...", prep_ok(1, [], cols))
        nrow = rng.choice([1, 2, 3] if ncol > 30 else [1, 2, 4, 8, 20])
        ops = [op_start(cols)]
        pat = rng.choice(["rand", "all", "none", "single"])
        for r in range(nrow):
            vals = []
            for j in range(ncol):
                nullable = not (cols[j]["fl"] & F_NOT_NULL)
                if pat == "all" and nullable:
                    vals.append(v_none(rng.choice(["u8", "str", "i64"])))
                elif pat == "single" and nullable and j == (r * 7 + i) % ncol:
                    vals.append(v_myc_null() if rng.random() < 0.3 else v_none("u8"))
                elif pat == "none":
                    vals.append(value_for_col(rng, cols[j]["ty"], cols[j]["fl"], allow_null=False))
                elif pat == "rand":
                    vals.append(value_for_col(rng, cols[j]["ty"], cols[j]["fl"]))
                else:
                    vals.append(value_for_col(rng, cols[j]["ty"], cols[j]["fl"], allow_null=False))
            if rng.random() < 0.5:
                ops.append(op_write_row(vals))
            else:
                ops += [op_write_col(v) for v in vals]
                if r != nrow - 1 or rng.random() < 0.7:
                    ops.append(op_end_row())
        ops.append(rng.choice([op_finish(), op_finish(), op_drop(), op_finish_one()]))
        if ops[-1]["op"] == "finish_one":
            ops.append(op_no_more_results())
        c.execute(1, [], ops)
        # refused writes: NULL into NOT NULL, type-class mismatches (each ends the connection, so last)
        r = rng.random()
        if r < 0.45:
            ty = rng.choice(ALL_COL_TYPES)
            cc = [col("n", ty, F_NOT_NULL | (F_UNSIGNED if ty in INT_TYPES and rng.random() < 0.5 else 0))]
            c.prepare("S2", prep_ok(2, [], cc))
            c.execute(2, [], [op_start(cc), op_write_col(rng.choice([v_none("u8"), v_none("str"), v_myc_null()])), op_end_row(), op_finish()])
        elif r < 0.9:
            ty = rng.choice(ALL_COL_TYPES)
            fl = F_UNSIGNED if ty in INT_TYPES and rng.random() < 0.5 else 0
            cc = [col("m", ty, fl)]
            other = rng.choice([t for t in ALL_COL_TYPES if t != ty])
            v = value_for_col(rng, other, F_UNSIGNED if other in INT_TYPES and rng.random() < 0.5 else 0, allow_null=False)
            c.prepare("S3", prep_ok(3, [], cc))
            c.execute(3, [], [op_start(cc), op_write_col(v), op_end_row(), op_finish()])
        c.ping()
        c.quit()
        out.append(c.build())
    # direct encoder: every value class against every column type
    cases = []
    for rep in range(2 if tier == "quick" else 30):
        for ty in ALL_COL_TYPES:
            for fl in ([0, F_UNSIGNED] if ty in INT_TYPES else [0]):
                for v in all_value_kinds(rng):
                    if v["c"]["t"] != "null":
                        cases.append({"v": v, "col": col("x", ty, fl), "mode": "bin"})
    for i in range(0, len(cases), 500):
        out.append({"id": "C07-enc%03d" % (i // 500), "kind": "encode", "cases": cases[i:i + 500]})
    return out


def gen_C15(rng, tier):
    out = []
    cols = [col("x", ty, fl) for ty in INT_TYPES for fl in (0, F_UNSIGNED)]
    # other flag bits must not change how signedness is decided (ZEROFILL, NOT NULL, NUM, ...)
    cols += [col("x", ty, fl) for ty in INT_TYPES for fl in (64, 64 | F_UNSIGNED, 1, 32768, 4096 | F_UNSIGNED)]
    cases = []
    for k in INT_RANGE:
        xs = boundary_ints(k)
        for x in xs:
            for c in cols:
                cases.append({"v": v_int(k, x), "col": c, "mode": "bin"})
        for _ in range(30 if tier == "quick" else 500):
            x = rand_int(rng, k)
            cases.append({"v": v_int(k, x), "col": rng.choice(cols), "mode": "bin"})
    for x in boundary_ints("i64"):
        for c in cols:
            cases.append({"v": v_myc_int(x), "col": c, "mode": "bin"})
    for x in boundary_ints("u64"):
        for c in cols:
            cases.append({"v": v_myc_uint(x), "col": c, "mode": "bin"})
    if tier == "quick":
        rng.shuffle(cases)
        cases = cases[:14000]
    for i in range(0, len(cases), 700):
        out.append({"id": "C15-enc%03d" % (i // 700), "kind": "encode", "cases": cases[i:i + 700]})
    if tier != "quick":
        for k in ("i8", "u8", "i16", "u16"):
            for ci, c in enumerate(cols):
                out.append({"id": "C15-all-%s-%d" % (k, ci), "kind": "encode", "enum": {"k": k, "cols": [c]}})
    # through the connection as well: integer rows in binary mode
    for i in range(20 if tier == "quick" else 300):
        c = Conv("C15-r%03d" % i, mode="lockstep")
        cc = [rand_col(rng, j, types=INT_TYPES) for j in range(rng.randint(1, 12))]
        c.prepare("S", prep_ok(1, [], cc))
        ops = [op_start(cc)]
        for r in range(rng.randint(1, 10)):
            ops.append(op_write_row([value_for_col(rng, x["ty"], x["fl"]) for x in cc]))
        ops.append(op_finish())
        c.execute(1, [], ops)
        c.ping()
        c.quit()
        out.append(c.build())
    return out


# ------------------------------------------------------------------------------------------------
def gen_C11(rng, tier):
    out = []
    n = 260 if tier == "quick" else 3000
    users = [b"", b"a", b"root", b"\xff\xfe", b"u" * 300, b"caf\xc3\xa9", b"\x01\x02", b" spaced user "]
    for i in range(n):
        layout = rng.choice(["41", "41", "41", "320"])
        user = rng.choice(users) if rng.random() < 0.6 else bytes(rng.randint(1, 255) for _ in range(rng.randint(0, 40)))
        tail = bytes(rng.getrandbits(8) for _ in range(rng.randint(0, 40)))
        if layout == "41":
            caps = (rng.getrandbits(32) | CAP_PROTOCOL_41) & ~CAP_SSL
            if rng.random() < 0.3:
                caps = 0xa200 | rng.choice([0, CAP_CONNECT_DB, CAP_PLUGIN_AUTH, CAP_LONG_PASSWORD])
            filler = [rng.getrandbits(8) for _ in range(23)] if rng.random() < 0.4 else None
            hs = handshake41(user, caps, tail, maxps=rng.getrandbits(32), collation=rng.getrandbits(8), filler=filler)
        else:
            caps = rng.getrandbits(16) & ~CAP_PROTOCOL_41 & ~CAP_SSL
            hs = handshake320(user, caps, rng.getrandbits(24), tail)
        auth = rng.choice(["accept", "accept", "reject"])
        tls_offered = rng.random() < 0.3
        hs_seq = rng.choice([1, 1, 1, 0, 2, 7, 200, 254, 255])
        c = Conv("C11-%05d" % i, mode=rng.choice(["lockstep", "pipelined", "pipelined"]), hs=hs, hs_seq=hs_seq, auth=auth, tls=tls_offered,
                 meta={"layout": layout})
        c.chunks, c.then = rand_chunks(rng)
        # commands already pipelined behind the handshake
        for j in range(rng.randint(0, 3)):
            r = rng.random()
            if r < 0.4:
                c.query("SELECT %d" % j, [op_completed(j, 0)] if auth == "accept" else None)
            elif r < 0.6:
                c.ping()
            elif r < 0.8:
                c.prepare("P", prep_ok(1, [], [])) if auth == "accept" else c.cmd(com_prepare("P"))
            else:
                c.init_db("db", [op_init_ok()] if auth == "accept" else None)
        if rng.random() < 0.6:
            c.quit()
        out.append(c.build())
    # client asks for TLS from a shim that offers none (C18 part / C11 gate): refused before auth
    for i in range(6 if tier == "quick" else 40):
        c = Conv("C11-ssl%02d" % i, mode="pipelined", hs=ssl_request(), tls=False)
        c.chunks, c.then = rand_chunks(rng)
        c.raw([rng.getrandbits(8) for _ in range(rng.randint(0, 50))], reply=False)
        out.append(c.build())
    # a complete 4.1 response that carries CLIENT_SSL, sent to a shim without TLS: refused, nothing served
    for i in range(6 if tier == "quick" else 40):
        c = Conv("C11-sslfull%02d" % i, mode="pipelined", hs=handshake41(rng.choice([b"root", b"", b"u" * 40]), caps=0xa200 | CAP_SSL), tls=False)
        c.chunks, c.then = rand_chunks(rng)
        c.cmd(com_query("SELECT 1"))
        c.ping()
        out.append(c.build())
    # truncated / malformed handshakes: error, never a callback
    for i in range(30 if tier == "quick" else 300):
        full = handshake41(b"root") if rng.random() < 0.7 else handshake320(b"root")
        cut = rng.randint(0, len(full) - 1)
        c = Conv("C11-cut%03d" % i, mode="pipelined", hs=full[:cut])
        c.ping()
        out.append(c.build())
    return out


def gen_C12(rng, tier):
    out = []
    n = 260 if tier == "quick" else 3000
    for i in range(n):
        mode = "lockstep" if i % 2 == 0 else "pipelined"
        c = Conv("C12-%05d" % i, mode=mode, shim="default_init" if i % 17 == 3 else "program")
        c.chunks, c.then = rand_chunks(rng)
        if rng.random() < 0.3:
            c.short_writes = [rng.choice([1, 2, 3, 5, 100]) for _ in range(rng.randint(1, 5))]
        live = False
        depth = rng.randint(1, 12 if tier == "quick" else 50)
        for j in range(depth):
            r = rng.random()
            if r < 0.25:
                c.query("Q%d" % j, rng.choice([[op_completed(1, 1)], rows_program(rng.randint(0, 5)),
                                               [op_start([]), op_end_row(), op_finish()], [op_error("ER_NO", b"e")],
                                               [op_complete_one(1, 1), op_start([col("a", T_LONG)]), op_write_row([v_int("i8", 1)]), op_finish()]]))
            elif r < 0.4:
                c.ping()
            elif r < 0.55:
                c.prepare("P%d" % j, prep_ok(5, [col("p", T_BLOB)], [col("c0", T_LONG)]))
                live = True
            elif r < 0.7 and live:
                c.execute(5, [p_bytes(T_BLOB, b"xy")], rows_program(rng.randint(0, 3), True))
            elif r < 0.78 and live:
                c.cmd(com_long_data(5, 0, b"chunk"))
            elif r < 0.84 and live:
                c.cmd(com_close(5))
                live = False
            elif r < 0.9:
                if c.shim == "default_init":
                    c.cmd(com_query("USE d")) if rng.random() < 0.5 else c.cmd(com_init_db("d"))
                else:
                    c.query("USE d", [op_init_ok()]) if rng.random() < 0.5 else c.init_db("d", [op_init_err("ER_BAD_DB_ERROR")])
            elif r < 0.95:
                c.cmd(com_field_list())
            else:
                c.query("select @@version_comment")
        if rng.random() < 0.7:
            c.quit()
        out.append(c.build())
    return out


def gen_C01(rng, tier):
    """flat part: short streams under many chunkings (the 16-50 MiB part runs in TraceBig mode)"""
    out = []
    n = 200 if tier == "quick" else 2500
    for i in range(n):
        c = Conv("C01-%05d" % i, mode="pipelined")
        ncmd = rng.randint(1, 6 if tier == "quick" else 30)
        for j in range(ncmd):
            r = rng.random()
            ln = rng.choice([0, 1, 2, 3, 4, 5, 10, 100, 255, 256, 1000, 4090, 4091, 4092, 4096, 5000, 9000])
            if ln > 300 and rng.random() < 0.6:
                ln = rng.randint(0, 60)
            body = bytes((k * 7 + j) % 95 + 32 for k in range(ln))
            if r < 0.5:
                c.query(b"Q" + body, [op_completed(j, 0)], seq0=rng.choice([0, 0, 1, 255]))
            elif r < 0.7:
                c.prepare(b"P" + body, prep_ok(j + 1, [col("p", T_BLOB)], []), seq0=rng.choice([0, 3]))
                if rng.random() < 0.7:
                    chunks = [bytes((k + m) % 256 for k in range(rng.choice([0, 1, 5, 300]))) for m in range(rng.randint(1, 3))]
                    for ch in chunks:
                        c.cmd(com_long_data(j + 1, 0, ch))
                    c.execute(j + 1, [p_long(T_BLOB)], [op_completed(0, 0)])
            elif r < 0.85:
                c.init_db(b"d" + body[:40], [op_init_ok()])
            else:
                c.ping()
        if rng.random() < 0.5:
            c.quit()
        # chunk schedule classes
        total = sum(len(m["b"]) for m in c.msgs)
        k = rng.random()
        if k < 0.2:
            c.chunks, c.then = [], 1
        elif k < 0.4:
            # cuts inside headers: one read ends after each of the 4 header bytes of some message
            pos = 0
            cuts = []
            for m in c.msgs:
                cuts.append(pos + rng.choice([1, 2, 3, 4]))
                pos += len(m["b"])
            sizes = []
            prev = 0
            for x in sorted(set(cuts)):
                if x > prev:
                    sizes.append(x - prev)
                    prev = x
            c.chunks, c.then = sizes, 0
        elif k < 0.55:
            c.chunks, c.then = [], 0   # one giant read (bounded by the buffer the server offers)
        elif k < 0.7:
            c.chunks, c.then = [rng.randint(1, 9) for _ in range(200)], rng.choice([1, 2, 0])
        else:
            c.chunks, c.then = rand_chunks(rng)
        out.append(c.build())
    # all 2^(L-1) chunkings of a short stream
    L = 11 if tier == "quick" else 13
    base = Conv("x", mode="pipelined", hs=False)
    stream_msgs = [frame(com_query("ab"), 0), frame(com_ping(), 0)]
    total = sum(len(x) for x in stream_msgs)
    hs = frame(handshake41(b"r"), 1)
    for mask in range(0, 1 << (total - 1), 1 if tier != "quick" else 3):
        sizes = []
        run = 1
        for bit in range(total - 1):
            if mask >> bit & 1:
                sizes.append(run)
                run = 1
            else:
                run += 1
        sizes.append(run)
        c = Conv("C01-all%05d" % mask, mode="pipelined", hs=False)
        c.raw(hs, True)
        for mwire in stream_msgs:
            c.raw(mwire, True)
        c.programs.append([op_completed(1, 1)])
        c.chunks, c.then = [len(hs)] + sizes, 0
        out.append(c.build())
    return out


# ------------------------------------------------------------------------------------------------
# prepared statements
PARAM_TYPES = INT_TYPES + [T_FLOAT, T_DOUBLE] + STR_TYPES + [T_DATE, T_DATETIME, T_TIMESTAMP, T_TIME]


def rand_param(rng, ty=None, allow_null=True, forms=True):
    ty = ty if ty is not None else rng.choice(PARAM_TYPES)
    if allow_null and rng.random() < 0.12:
        return p_null(ty, uns=ty in INT_TYPES and rng.random() < 0.5)
    if ty in INT_TYPES:
        uns = rng.random() < 0.5
        w = INT_WIDTH[ty] * 8
        x = rng.choice([0, 1, (1 << (w - 1)) - 1, 1 << (w - 1), (1 << w) - 1, rng.getrandbits(w)])
        return p_int(ty, x, uns)
    if ty == T_FLOAT:
        return p_f32(rand_f32_bits(rng, finite=False))
    if ty == T_DOUBLE:
        return p_f64(rand_f64_bits(rng, finite=False))
    if ty in STR_TYPES:
        n = rng.choice([0, 1, 5, 20, 250, 251, 252, 300]) if rng.random() < 0.985 else rng.choice([65535, 65536])
        data = rand_utf8(rng, n // 2) if rng.random() < 0.5 and n < 1000 else bytes((i * 13 + n) % 256 for i in range(n))
        return p_bytes(ty, data)
    if ty == T_DATE:
        y, m, d = rand_date(rng)
        form = rng.choice([4, 4, 0]) if forms else 4
        return p_date(ty, y if form else 0, m if form else 0, d if form else 0, form=form)
    if ty in (T_DATETIME, T_TIMESTAMP):
        y, m, d = rand_date(rng)
        h, mi, s = rand_time(rng)
        form = rng.choice([0, 4, 7, 11]) if forms else rng.choice([7, 11])
        us = rand_us(rng) if form == 11 else 0
        if form == 11 and us == 0:
            us = 1
        return p_date(ty, y, m, d, h, mi, s, us, form=form)
    if ty == T_TIME:
        h, mi, s = rand_time(rng)
        form = rng.choice([0, 8, 12])
        us = rand_us(rng) if form == 12 else 0
        if form == 12 and us == 0:
            us = 999999
        return p_time(rng.choice([0, 1, 34, 838, rng.randint(0, 16000)]) if form else 0, h if form else 0, mi if form else 0, s if form else 0, us, form=form)
    raise ValueError(ty)


def retype(rng, p):
    """same bound type, fresh value"""
    q = rand_param(rng, p['ty'], allow_null=True)
    if p['ty'] in INT_TYPES:
        q = dict(q, uns=p.get('uns', False))
        if not q.get('null'):
            w = INT_WIDTH[p['ty']]
            q['enc'] = list(rng.getrandbits(8 * w).to_bytes(w, 'little'))
    return q


def gen_C08(rng, tier):
    out = []
    n = 150 if tier == "quick" else 2500
    for i in range(n):
        c = Conv("C08-%05d" % i, mode=rng.choice(["lockstep", "pipelined"]))
        c.chunks, c.then = rand_chunks(rng)
        for sidx in range(rng.randint(1, 3)):
            np = rng.choice([0, 1, 2, 3, 7, 8, 9, 15, 16, 17, 33] + ([100, 300] if i % 10 == 0 else []))
            params = [rand_param(rng) for _ in range(np)]
            # all-NULL / no-NULL / single-NULL patterns now and then
            pat = rng.random()
            if pat < 0.1:
                params = [p_null(p['ty'], p.get('uns', False)) for p in params]
            elif pat < 0.2:
                params = [rand_param(rng, p['ty'], allow_null=False) for p in params]
            sid = sidx + 1
            c.prepare("S%d" % sid, prep_ok(sid, [col("p%d" % k, p['ty'], F_UNSIGNED if p.get('uns') else 0) for k, p in enumerate(params)], []))
            c.execute(sid, params, [op_completed(1, 0)], rebind=True)
            if rng.random() < 0.5 and np > 0:
                c.execute(sid, [rand_param(rng) for _ in range(np)], [op_completed(2, 0)], rebind=True)
        c.ping()
        c.quit()
        out.append(c.build())
    # every type code x unsigned flag x length form, one parameter each
    k = 0
    for ty in PARAM_TYPES:
        for rep in range(2 if tier == "quick" else 12):
            c = Conv("C08-t%03d-%d" % (ty, rep), mode="lockstep")
            ps = [rand_param(rng, ty, allow_null=False) for _ in range(6)]
            if ty in INT_TYPES:
                ps = [dict(p, uns=(j % 2 == 0)) for j, p in enumerate(ps)]
            c.prepare("S", prep_ok(1, [col("p", ty)] * len(ps), []))
            c.execute(1, ps, [op_completed(0, 0)])
            c.quit()
            out.append(c.build())
    return out


def stmt_history(rng, c, nstmts, nops, p_close=0.08, p_long=0.0, p_reprepare=0.05, reuse=0.5, long_sizes=(0, 1, 5, 250, 300)):
    """random history over a few statements; returns nothing, extends c"""
    ids = [1, 2, 7, 2**32 - 1, 65536, 300][:nstmts]
    st = {}   # id -> dict(types=[param descriptors of last bind] or None, np)

    def do_prepare(sid):
        np = rng.choice([0, 1, 2, 3, 4])
        # keep long-data capable params (string family) frequent
        tys = [rng.choice(PARAM_TYPES if rng.random() < 0.6 else [T_BLOB, T_VAR_STRING, T_LONG_BLOB]) for _ in range(np)]
        c.prepare("S%d" % sid, prep_ok(sid, [col("p%d" % k, t) for k, t in enumerate(tys)], [col("r", T_LONG)]))
        st[sid] = dict(np=np, tys=tys, bound=None, pend={})

    for _j in range(nops):
        if rng.random() < 0.12:
            R2.interleave_other(rng, c, _j)
        live = [s for s in st]
        r = rng.random()
        if not live or r < 0.12 or (r < 0.12 + p_reprepare and live):
            sid = rng.choice(ids) if rng.random() < 0.7 or not live else rng.choice(live)
            if rng.random() < 0.1:
                c.prepare("BAD", prep_err("ER_PARSE_ERROR"))
            else:
                do_prepare(sid)
            continue
        sid = rng.choice(live)
        s = st[sid]
        if r < 0.12 + p_reprepare + p_close:
            c.cmd(com_close(sid))
            del st[sid]
            continue
        if r < 0.12 + p_reprepare + p_close + p_long and s['np'] > 0:
            strp = [k for k, t in enumerate(s['tys']) if t in STR_TYPES]
            k = rng.choice(strp) if strp and rng.random() < 0.9 else rng.randrange(s['np'])
            n = rng.choice(long_sizes)
            data = bytes((i * 3 + k + n) % 256 for i in range(n))
            c.cmd(com_long_data(sid, k, data))
            s['pend'][k] = True
            continue
        # execute
        must_bind = s['bound'] is None
        rebind = must_bind or rng.random() > reuse
        if rebind:
            if rng.random() < 0.5:
                s['tys'] = [rng.choice(PARAM_TYPES) if k not in s['pend'] else s['tys'][k] for k in range(s['np'])]
            ps = [rand_param(rng, t) for t in s['tys']]
        else:
            ps = [retype(rng, p) for p in s['bound']]
        for k in s['pend']:
            ps[k] = dict(ps[k], long=True, null=False, enc=[])
        c.execute(sid, ps, [op_completed(1, 0)], rebind=rebind)
        if rebind:
            s['bound'] = [dict(p, long=False) for p in ps]
        s['pend'] = {}


def gen_C16(rng, tier):
    out = []
    n = 160 if tier == "quick" else 2000
    for i in range(n):
        c = Conv("C16-%05d" % i, mode=rng.choice(["lockstep", "pipelined"]))
        c.chunks, c.then = rand_chunks(rng)
        stmt_history(rng, c, rng.randint(1, 4), rng.randint(4, 25 if tier == "quick" else 200), p_long=0.05, reuse=0.6)
        c.ping()
        c.quit()
        out.append(c.build())
    return out


def gen_C17(rng, tier):
    out = []
    n = 160 if tier == "quick" else 2000
    for i in range(n):
        c = Conv("C17-%05d" % i, mode=rng.choice(["lockstep", "pipelined"]))
        c.chunks, c.then = rand_chunks(rng)
        stmt_history(rng, c, rng.randint(1, 4), rng.randint(5, 30 if tier == "quick" else 200), p_long=0.35, reuse=0.4,
                     long_sizes=(0, 1, 5, 250, 300) if i % 8 else (0, 1, 70000))
        c.ping()
        c.quit()
        out.append(c.build())
    return out


def gen_C10(rng, tier):
    out = []
    n = 200 if tier == "quick" else 2500
    for i in range(n):
        c = Conv("C10-%05d" % i, mode=rng.choice(["lockstep", "pipelined"]))
        c.chunks, c.then = rand_chunks(rng)
        stmt_history(rng, c, rng.randint(1, 5), rng.randint(3, 25 if tier == "quick" else 300), p_close=0.2, p_long=0.1, p_reprepare=0.15)
        # endings that must kill the connection without reaching the shim
        r = rng.random()
        if r < 0.25:
            c.cmd(com_close(4242))          # closing an unknown id: on_close, no reply
            c.cmd(com_close(4242))
            c.ping()
            c.quit()
        elif r < 0.45:
            c.cmd(com_execute(999, []))      # never prepared
            c.ping()
        elif r < 0.6:
            c.cmd(com_long_data(999, 0, b"x"), reply=False)
            c.ping()
        elif r < 0.75:
            c.prepare("S", prep_ok(50, [], []))
            c.cmd(com_close(50))
            c.cmd(com_execute(50, []))       # closed
            c.ping()
        elif r < 0.85:
            c.prepare("S", prep_err("ER_NO_SUCH_TABLE"))
            c.cmd(com_execute(51, []))       # rejected at prepare time
            c.ping()
        else:
            c.ping()
            c.quit()
        out.append(c.build())
    return out


# ------------------------------------------------------------------------------------------------
def c19_conversations(rng, tier):
    """scripted conversations (archetypes) for fault enumeration"""
    convs = []

    def mk(name, fn, mode="lockstep"):
        c = Conv("C19-" + name, mode=mode)
        fn(c)
        convs.append(c)

    mk("ok", lambda c: c.query("Q", [op_completed(1, 2)]).ping().quit())
    mk("rs_finish", lambda c: c.query("Q", rows_program(2)).ping().quit())
    mk("rs_qmark", lambda c: c.query("Q", [op_start([col("a", T_LONG)]), op_write_row([v_int("i32", 1)]), op_write_row([v_int("i32", 2)]), op_finish()]).quit())
    mk("rs_drop", lambda c: c.query("Q", [op_start([col("a", T_LONG)]), op_write_row([v_int("i32", 1)]), op_drop()]).ping().quit())
    mk("rs_implicit_drop", lambda c: c.query("Q", [op_start([col("a", T_LONG)]), op_write_col(v_int("i32", 1))]).ping().quit())
    mk("q_drop", lambda c: c.query("Q", [op_complete_one(1, 1)]).ping().quit())
    mk("multi", lambda c: c.query("Q", [op_complete_one(1, 1), op_start([col("a", T_LONG)]), op_write_row([v_int("i32", 1)]), op_finish_one(), op_start([]), op_end_row(), op_finish()]).quit())
    mk("prep_exec", lambda c: c.prepare("P", prep_ok(1, [col("p", T_LONG)], [col("c0", T_LONG)])).execute(1, [p_int(T_LONG, 3)], rows_program(1, True)).cmd(com_close(1)).quit())
    mk("longdata", lambda c: c.prepare("P", prep_ok(1, [col("p", T_BLOB)], [])).cmd(com_long_data(1, 0, b"abc")).execute(1, [p_long()], [op_completed(0, 0)]).quit())
    mk("pipelined", lambda c: c.query("A", [op_completed(1, 1)]).query("B", rows_program(1)).ping().quit(), mode="pipelined")
    mk("shim_err_query", lambda c: c.query("Q", [op_return_err(91)]).ping().quit())
    mk("shim_err_after_rows", lambda c: c.query("Q", [op_start([col("a", T_LONG)]), op_write_row([v_int("i32", 1)]), op_return_err(92)]).ping())
    mk("init", lambda c: c.init_db("db", [op_init_ok()]).query("USE x", [op_init_err("ER_BAD_DB_ERROR")]).quit())
    mk("init_shim_err", lambda c: c.init_db("db", [op_return_err(93)]).ping())
    mk("fieldlist", lambda c: c.cmd(com_field_list()).query("select @@max_allowed_packet").quit())
    mk("eof_no_quit", lambda c: c.query("Q", [op_completed(0, 0)]).ping())
    if tier != "quick":
        mk("err_reply", lambda c: c.query("Q", [op_error("ER_NO", b"x")]).prepare("P", prep_err("ER_PARSE_ERROR")).quit())
        mk("big_rows", lambda c: c.query("Q", rows_program(30)).quit())
        mk("exec_err", lambda c: c.prepare("P", prep_ok(1, [], [])).execute(1, [], [op_return_err(94)]).ping())
        mk("default_init", lambda c: c.cmd(com_init_db("db")).cmd(com_query("USE y")).quit())
        convs[-1].shim = "default_init"
        mk("pipelined2", lambda c: c.ping().ping().query("B", rows_program(2)).cmd(com_close(9)).ping().quit(), mode="pipelined")
    R2.c19_extra_convs(mk)
    rej = Conv("C19-reject", mode="lockstep", auth="reject")
    rej.ping()
    convs.append(rej)
    return convs


def gen_C19(rng, tier, probe=None):
    out = []
    convs = c19_conversations(rng, tier)
    base = [c.build() for c in convs]
    counts = probe(base)   # id -> dict(rd, wr, fl, ops)
    for c, sc in zip(convs, base):
        out.append(sc)
        n = counts[sc["id"]]
        nops = n["ops"]
        kinds = ["oneoff", "persistent"]
        errs = ["BrokenPipe", "ConnectionReset", "TimedOut", "Other"]
        for k in range(nops):
            for kind in kinds:
                s2 = json_copy(sc)
                s2["id"] = "%s-%s-%d" % (sc["id"], kind[0], k)
                s2["transport"]["fault"] = {"on": "any", "at": k, "kind": kind, "err": errs[(k + len(kind)) % len(errs)]}
                s2["meta"] = {"conv": sc["id"], "fault": kind, "at": k}
                out.append(s2)
        # short writes combined with a write fault
        for k in range(0, n["wr"], 2):
            s2 = json_copy(sc)
            s2["id"] = "%s-sw-%d" % (sc["id"], k)
            s2["transport"]["short_writes"] = [3, 1, 7]
            s2["transport"]["fault"] = {"on": "write", "at": k * 2 + 1, "kind": "oneoff", "err": "BrokenPipe"}
            s2["meta"] = {"conv": sc["id"], "fault": "write-short", "at": k}
            out.append(s2)
        # end of stream after every byte offset of the client stream
        wire = []
        for m in sc["client"]["msgs"]:
            wire += m["b"]
        step = 1 if tier != "quick" or len(wire) < 90 else 2
        for k in range(0, len(wire), step):
            s2 = json_copy(sc)
            s2["id"] = "%s-eof-%d" % (sc["id"], k)
            s2["client"]["mode"] = "pipelined"
            s2["client"]["msgs"] = [{"b": wire[:k], "reply": True}]
            s2["transport"]["chunks"] = [rng.choice([1, 3, 0, 50]) for _ in range(6)]
            if k % 3 == 0:
                # every message arrives in a read of its own (so a truncated one starts with an empty buffer)
                pos, cuts = 0, []
                for m in sc["client"]["msgs"]:
                    pos += len(m["b"])
                    cuts.append(pos)
                s2["transport"]["chunks"] = []
                s2["transport"]["cuts"] = cuts
            s2["meta"] = {"conv": sc["id"], "fault": "eof", "at": k}
            out.append(s2)
    return out


def json_copy(x):
    import json as _j
    return _j.loads(_j.dumps(x))


# ------------------------------------------------------------------------------------------------
C20_ALPHABET = [0x00, 0x01, 0x02, 0x03, 0x04, 0x0e, 0x16, 0x17, 0x18, 0x19, 0xff]


def raw_conv(sid, raw, hs=None, hs_seq=1, prepares=None, programs=None, chunks=None, meta=None):
    c = Conv(sid, mode="pipelined", hs=hs, hs_seq=hs_seq, meta=meta)
    if raw:
        c.raw(raw, True)
    c.prepares = prepares or []
    c.programs = programs or []
    if chunks is not None:
        c.chunks, c.then = chunks
    return c.build()


def gen_C20(rng, tier):
    import itertools
    out = []
    A = C20_ALPHABET
    # (1) all short strings over the reduced alphabet, as a raw stream behind a valid handshake
    maxlen = 3 if tier == "quick" else 4
    n = 0
    for L in range(1, maxlen + 1):
        for t in itertools.product(A, repeat=L):
            out.append(raw_conv("C20-a%d-%05d" % (L, n), list(t)))
            n += 1
    extra = 2500 if tier == "quick" else 40000
    for i in range(extra):
        L = rng.choice([4, 5, 5, 6, 7, 8]) if tier == "quick" else rng.choice([5, 5, 6, 7, 8, 10])
        out.append(raw_conv("C20-r%05d" % i, [rng.choice(A) for _ in range(L)]))
    # (2) every command byte, alone and with short bodies, properly framed
    for cb in range(256):
        for bi, body in enumerate(([], [0], [1, 0, 0, 0], [1, 0, 0, 0, 0, 1, 0, 0, 0], [rng.getrandbits(8) for _ in range(rng.randint(1, 12))])):
            sc = raw_conv("C20-c%03d-%d" % (cb, bi), frame([cb] + body, 0) + frame(com_ping(), 0),
                          prepares=[prep_ok(1, [col("p", T_LONG)], [])], programs=[[op_completed(0, 0)]] * 3)
            out.append(sc)
    # (3) grammar-aware mutations of a valid prepared-statement conversation
    params = [p_int(T_LONG, 7), p_bytes(T_VAR_STRING, b"hello"), p_null(T_TINY), p_date(T_DATETIME, 2020, 2, 29, 1, 2, 3, 4), p_time(1, 2, 3, 4, 5), p_f64(f64_bits(1.5))]
    pcols = [col("p%d" % i, p['ty']) for i, p in enumerate(params)]
    ex = com_execute(1, params, True)
    prep = [prep_ok(1, pcols, [])]

    reuse = com_execute(1, params, False)

    def mut_conv(sid, payload, first=None, seq0=0):
        wire = frame(com_prepare("S"), 0)
        if first is not None:
            wire += frame(first, 0)
        # the mutated packet, then a ping, then an execution that re-uses whatever the server kept
        wire += frame(payload, seq0) + frame(com_ping(), 0) + frame(reuse, 0) + frame(com_ping(), 0)
        return raw_conv(sid, wire, prepares=prep, programs=[[op_completed(0, 0)]] * 5)

    for cut in range(len(ex) + 1):                      # truncation at every length
        out.append(mut_conv("C20-m-cut%03d" % cut, ex[:cut]))
        out.append(mut_conv("C20-m-cut2-%03d" % cut, com_execute(1, params, False)[:cut], first=ex))   # reuse path
    for pos in range(len(ex)):                           # every byte set to 0, ff, +1
        for val in sorted({0, 0xff, (ex[pos] + 1) % 256}):
            m = list(ex)
            m[pos] = val
            out.append(mut_conv("C20-m-b%03d-%d" % (pos, val), m))
    tpos = 1 + 4 + 1 + 4 + 1 + 1   # first type byte
    for code in range(256):                              # every type code in the type table
        m = list(ex)
        m[tpos] = code
        out.append(mut_conv("C20-m-ty%03d" % code, m))
        m2 = list(ex)
        m2[tpos + 2 * 3] = code
        out.append(mut_conv("C20-m-ty3-%03d" % code, m2))
    out.append(mut_conv("C20-m-reuse-unbound", com_execute(1, params, False)))     # reuse with nothing bound
    out.append(mut_conv("C20-m-ext", ex + [1, 2, 3]))
    for seq in range(256):                               # request sequence ids
        out.append(mut_conv("C20-m-seq%03d" % seq, ex, seq0=seq))
    # long data / close / execute with extreme ids and lengths
    for body in ([0x18], [0x18, 1, 0, 0], [0x18, 1, 0, 0, 0], [0x18, 1, 0, 0, 0, 0], [0x18, 1, 0, 0, 0, 0, 0], [0x19], [0x19, 1], [0x19, 1, 0, 0], [0x17], [0x17, 1, 0, 0, 0], [0x17, 1, 0, 0, 0, 0, 1, 0, 0]):
        out.append(mut_conv("C20-m-short-%s" % "_".join(map(str, body)), body))
    # (4) handshake: every truncation, random garbage, empty packets, zero-length packets
    full41 = handshake41(b"root")
    for cut in range(len(full41) + 1):
        out.append(raw_conv("C20-h41-%03d" % cut, frame(com_ping(), 0), hs=full41[:cut]))
    full320 = handshake320(b"root")
    for cut in range(len(full320) + 1):
        out.append(raw_conv("C20-h320-%03d" % cut, frame(com_ping(), 0), hs=full320[:cut]))
    for i in range(200 if tier == "quick" else 3000):
        junk = [rng.getrandbits(8) for _ in range(rng.randint(0, 60))]
        out.append(raw_conv("C20-hj%04d" % i, frame(com_ping(), 0), hs=junk, hs_seq=rng.getrandbits(8)))
    # (5) seeded random bytes behind a valid handshake (and random packet headers)
    for i in range(600 if tier == "quick" else 10000):
        L = rng.randint(1, 40)
        junk = [rng.getrandbits(8) for _ in range(L)]
        if rng.random() < 0.5:
            junk = hdr(rng.randint(0, L), rng.getrandbits(8)) + junk
        out.append(raw_conv("C20-j%05d" % i, junk, chunks=rand_chunks(rng)))
    # (6) every spelling of a USE statement over the characters the name extraction looks at (backtick, ';',
    #     blank, a letter), up to 4 (quick) / 6 characters: each must reach on_init and get its reply - the
    #     slicing of the name must not fail on unbalanced or lone quoting characters
    k = 0
    for L in range(0, (4 if tier == "quick" else 6) + 1):
        for t in itertools.product(b"`; a", repeat=L):
            if L > 4 and rng.random() < 0.5:
                continue
            c = Conv("C20-use%05d" % k, mode="lockstep")
            k += 1
            c.query((b"USE " if k % 2 else b"use ") + bytes(t), [op_init_ok()])
            c.query(b"SELECT 1", [op_completed(1, 0)])
            c.quit()
            out.append(c.build())
    return out


# ------------------------------------------------------------------------------------------------
# 16-50 MiB messages (run-length encoded traces, judged by spec/TraceBig.tla)
gen_C04 = GB.gen_C04


def _with_big(flat_gen, big_gen):
    def g(rng, tier):
        return flat_gen(rng, tier) + big_gen(rng, tier)
    return g


gen_C01 = _with_big(gen_C01, GB.gen_C01_big)
gen_C17 = _with_big(gen_C17, GB.gen_C17_big)
gen_C05 = _with_big(gen_C05, GB.gen_C05_big)
gen_C20 = _with_big(gen_C20, GB.gen_C20_big)


# ------------------------------------------------------------------------------------------------
def tls_conv(sid, rng, mode="lockstep", cert=False, server_cert_req=False, user=b"tlsuser", auth="accept", ncmd=3, repeat_ssl_flag=True):
    c = Conv(sid, mode=mode, hs=False, tls=True, auth=auth)
    c.client_tls = True
    c.client_cert = cert
    c.server_client_cert = server_cert_req
    c.raw(frame(ssl_request(), 1), reply=False)
    c.raw(frame(handshake41(user, caps=(0xa200 | CAP_SSL) if repeat_ssl_flag else 0xa200), 2), True)
    if auth == "accept":
        for j in range(ncmd):
            r = rng.random()
            if r < 0.4:
                c.query("SELECT %d" % j, rng.choice([[op_completed(j, 1)], rows_program(rng.randint(0, 3))]))
            elif r < 0.6:
                c.ping()
            elif r < 0.8:
                c.prepare("P", prep_ok(4, [col("p", T_LONG)], [col("c0", T_LONG)]))
                c.execute(4, [p_int(T_LONG, j)], rows_program(1, True))
            else:
                c.init_db("db", [op_init_ok()])
        c.ping()
        c.quit()
    else:
        c.ping()
    return c


def gen_C18(rng, tier):
    out = []
    # every single cut around the SSL request / ClientHello boundary
    upto = 300 if tier == "quick" else 420
    step = 1
    for k in range(1, upto, step):
        c = tls_conv("C18-cut%03d" % k, rng, mode="lockstep" if k % 2 else "pipelined", cert=(k % 7 == 0), server_cert_req=(k % 7 == 0 or k % 11 == 0), ncmd=2)
        sc = c.build()
        sc["transport"]["cuts"] = [k]
        out.append(sc)
    # all pairs of cuts in [30, 44]
    for a in range(30, 45):
        for b_ in range(a + 1, 45):
            if tier == "quick" and (a + b_) % 3:
                continue
            c = tls_conv("C18-pair%02d-%02d" % (a, b_), rng, ncmd=1)
            sc = c.build()
            sc["transport"]["cuts"] = [a, b_]
            out.append(sc)
    # one-byte reads throughout, and random chunkings of the whole handshake
    for i in range(3 if tier == "quick" else 12):
        c = tls_conv("C18-ones%02d" % i, rng, cert=(i % 2 == 0), server_cert_req=(i % 2 == 0), ncmd=2)
        c.chunks, c.then = [], 1
        out.append(c.build())
    for i in range(60 if tier == "quick" else 800):
        c = tls_conv("C18-rnd%03d" % i, rng, mode=rng.choice(["lockstep", "pipelined"]), cert=rng.random() < 0.4,
                     server_cert_req=rng.random() < 0.5, user=rng.choice([b"u", b"", b"\xff\xfe", b"x" * 200]),
                     auth=rng.choice(["accept", "accept", "accept", "reject"]), ncmd=rng.randint(0, 5),
                     repeat_ssl_flag=rng.random() < 0.6)
        c.chunks = [rng.choice([1, 2, 3, 5, 8, 13, 40, 100, 500, 0]) for _ in range(rng.randint(1, 80))]
        c.then = rng.choice([0, 0, 7, 64])
        out.append(c.build())
    # TLS requested from a shim that offers none: refused with an error before after_authentication
    for i in range(8 if tier == "quick" else 60):
        c = Conv("C18-notls%02d" % i, mode="pipelined", hs=False, tls=False)
        c.raw(frame(ssl_request(), 1), reply=False)
        c.raw([22, 3, 1, 0, 5, 1, 2, 3, 4, 5] + [rng.getrandbits(8) for _ in range(rng.randint(0, 30))], reply=False)
        c.chunks, c.then = rand_chunks(rng)
        out.append(c.build())
    # plaintext clients against a TLS-offering shim still work
    for i in range(5 if tier == "quick" else 40):
        c = Conv("C18-plain%02d" % i, mode="lockstep", tls=True)
        c.query("Q", [op_completed(1, 1)]).ping().quit()
        out.append(c.build())
    return out


# ------------------------------------------------------------------------------------------------
# additions after the first round of independently seeded defects (see DESIGN.md, seeded/)
def _c10_reprepare(rng, tier):
    out = []
    n = 24 if tier == "quick" else 200
    for i in range(n):
        c = Conv("C10-rp%03d" % i, mode=rng.choice(["lockstep", "pipelined"]))
        sid = rng.choice([1, 7, 2**32 - 1])
        variant = i % 4
        if variant == 0:
            # long data for the old incarnation must not reach the re-prepared statement
            c.prepare("S", prep_ok(sid, [col("p", T_BLOB), col("q", T_LONG)], []))
            c.cmd(com_long_data(sid, 0, b"for the old statement"))
            c.prepare("S2", prep_ok(sid, [col("p", T_BLOB), col("q", T_LONG)], []))
            c.execute(sid, [p_bytes(T_BLOB, b"inline"), p_int(T_LONG, 5)], [op_completed(1, 0)])
        elif variant == 1:
            # types bound for the old incarnation must be gone: a reuse execution cannot be decoded
            c.prepare("S", prep_ok(sid, [col("p", T_LONGLONG)], []))
            c.execute(sid, [p_int(T_LONGLONG, 77)], [op_completed(1, 0)])
            c.prepare("S2", prep_ok(sid, [col("p", T_LONGLONG)], []))
            c.execute(sid, [p_int(T_LONGLONG, 78)], [op_completed(2, 0)], rebind=False)
        elif variant == 2:
            # new parameter count after re-prepare
            c.prepare("S", prep_ok(sid, [col("p", T_TINY)], []))
            c.execute(sid, [p_int(T_TINY, 1)], [op_completed(1, 0)])
            c.prepare("S2", prep_ok(sid, [col("a", T_VAR_STRING), col("b", T_LONGLONG), col("c", T_TINY)], []))
            c.execute(sid, [p_bytes(T_VAR_STRING, b"xyz"), p_int(T_LONGLONG, 2**40), p_int(T_TINY, 3)], [op_completed(2, 0)])
            c.execute(sid, [p_bytes(T_VAR_STRING, b"w"), p_int(T_LONGLONG, 9), p_int(T_TINY, 4)], [op_completed(3, 0)], rebind=False)
        elif variant == 3 and i % 8 == 3:
            # a rejected PREPARE must not (re-)register anything
            c.prepare("S", prep_ok(sid, [], []))
            c.execute(sid, [], [op_completed(1, 0)])
            c.cmd(com_close(sid))
            c.prepare("BAD", prep_err("ER_PARSE_ERROR"))
            c.cmd(com_execute(sid, []))
        else:
            # prepare / close / prepare again with the same id, long data in between for another id
            c.prepare("S", prep_ok(sid, [col("p", T_BLOB)], []))
            c.prepare("T", prep_ok(sid ^ 1, [col("p", T_BLOB)], []))
            c.cmd(com_long_data(sid ^ 1, 0, b"other"))
            c.cmd(com_close(sid))
            c.prepare("S3", prep_ok(sid, [col("p", T_BLOB)], []))
            c.execute(sid, [p_bytes(T_BLOB, b"mine")], [op_completed(1, 0)])
            c.execute(sid ^ 1, [p_long(T_BLOB)], [op_completed(1, 0)])
        c.ping()
        c.quit()
        out.append(c.build())
    return out


def _c12_extra(rng, tier):
    out = []
    # (a) a complete command that ends exactly where the buffer the server offered ends
    sizes = []
    for k in range(0, 4 if tier == "quick" else 6):
        for d in (-1, 0, 1):
            sizes.append(4096 * (1 << k) + d)
    for i, total in enumerate(sizes):
        for mode in ("lockstep", "pipelined"):
            c = Conv("C12-fill%02d-%s" % (i, mode[0]), mode=mode)
            body = bytes(65 + (j % 26) for j in range(total - 5))     # header 4 + command byte 1 + body
            c.query(body, [op_completed(1, 1)])
            c.ping()
            c.query(b"second", rows_program(2))
            c.quit()
            c.chunks, c.then = [], 0                                  # always hand over as much as the server offers
            sc = c.build()
            sc["transport"]["chunks"] = []
            sc["transport"]["then"] = 0
            out.append(sc)
    # (b) stale statement handles in lock-step (the client waits for whatever the server says)
    for i in range(12 if tier == "quick" else 80):
        c = Conv("C12-stale%02d" % i, mode="lockstep")
        c.prepare("S", prep_ok(3, [], []))
        c.execute(3, [], [op_completed(1, 1)])
        if i % 3 == 0:
            c.cmd(com_close(3))
            c.cmd(com_execute(3, []))
        elif i % 3 == 1:
            c.cmd(com_execute(99, []))
        else:
            c.cmd(com_long_data(42, 0, b"zz"), reply=False)
        c.ping()
        c.quit()
        out.append(c.build())
    return out


gen_C10 = (lambda f: (lambda rng, tier: f(rng, tier) + _c10_reprepare(rng, tier)))(gen_C10)
gen_C12 = (lambda f: (lambda rng, tier: f(rng, tier) + _c12_extra(rng, tier)))(gen_C12)
gen_C19 = (lambda f: (lambda rng, tier, probe=None: f(rng, tier, probe) + GB.gen_C19_big(rng, tier)))(gen_C19)


def _c16_extra(rng, tier):
    out = []
    n = 18 if tier == "quick" else 150
    for i in range(n):
        c = Conv("C16-x%03d" % i, mode=rng.choice(["lockstep", "pipelined"]))
        v = i % 3
        if v == 0:
            # long data must not disturb the statement's bound types
            c.prepare("S", prep_ok(4, [col("a", T_LONGLONG), col("b", T_BLOB)], []))
            c.cmd(com_long_data(4, 1, b"xy"))
            c.execute(4, [p_int(T_LONGLONG, 8), p_long(T_BLOB)], [op_completed(1, 0)])
            c.execute(4, [p_int(T_LONGLONG, 9), p_bytes(T_BLOB, b"inline")], [op_completed(2, 0)], rebind=False)
            c.cmd(com_long_data(4, 1, b"again"))
            c.execute(4, [p_int(T_LONGLONG, 10), p_long(T_BLOB)], [op_completed(3, 0)], rebind=False)
        elif v == 1:
            # rebind replaces the earlier types completely, and another statement is not influenced
            c.prepare("S", prep_ok(1, [col("a", T_LONGLONG)], []))
            c.prepare("T", prep_ok(2, [col("a", T_VAR_STRING)], []))
            c.execute(1, [p_int(T_LONGLONG, 7)], [op_completed(1, 0)])
            c.execute(2, [p_bytes(T_VAR_STRING, b"abc")], [op_completed(1, 0)])
            c.execute(1, [p_bytes(T_VAR_STRING, b"abc")], [op_completed(2, 0)])
            c.execute(1, [p_bytes(T_VAR_STRING, b"xyz")], [op_completed(3, 0)], rebind=False)
            c.execute(2, [p_bytes(T_VAR_STRING, b"q")], [op_completed(2, 0)], rebind=False)
            c.execute(1, [p_int(T_TINY, 5, uns=True)], [op_completed(4, 0)])
            c.execute(1, [p_int(T_TINY, 200, uns=True)], [op_completed(5, 0)], rebind=False)
        elif v == 2 and i % 9 == 2:
            # types bound for a statement that was closed must not reach a new statement with another id
            c.prepare("A", prep_ok(1, [col("a", T_LONGLONG)], []))
            c.execute(1, [p_int(T_LONGLONG, 0xdeadbeef, uns=True)], [op_completed(1, 0)])
            c.cmd(com_close(1))
            c.prepare("B", prep_ok(2, [col("a", T_LONGLONG)], []))
            c.execute(2, [p_int(T_LONGLONG, 5)], [op_completed(2, 0)], rebind=False)
        elif v == 2 and i % 9 == 5:
            # a rebind that changes only the signedness, and a rebind whose last parameter is NULL
            c.prepare("S", prep_ok(3, [col("a", T_LONGLONG), col("b", T_LONG)], []))
            c.execute(3, [p_int(T_LONGLONG, 2**64 - 1, uns=False), p_int(T_LONG, 7)], [op_completed(1, 0)])
            c.execute(3, [p_int(T_LONGLONG, 2**64 - 1, uns=True), p_int(T_LONG, 2**32 - 1, uns=True)], [op_completed(2, 0)])
            c.execute(3, [p_int(T_LONGLONG, 2**64 - 2, uns=True), p_int(T_LONG, 2**32 - 2, uns=True)], [op_completed(3, 0)], rebind=False)
            c.execute(3, [p_bytes(T_VAR_STRING, b"ab"), p_null(T_VAR_STRING)], [op_completed(4, 0)])
            c.execute(3, [p_bytes(T_VAR_STRING, b"cd"), p_bytes(T_VAR_STRING, b"ef")], [op_completed(5, 0)], rebind=False)
        else:
            # a statement prepared again under the same id starts without bound types
            c.prepare("S", prep_ok(6, [col("a", T_VAR_STRING)], []))
            c.execute(6, [p_bytes(T_VAR_STRING, b"old")], [op_completed(1, 0)])
            c.prepare("S2", prep_ok(6, [col("a", T_VAR_STRING)], []))
            c.execute(6, [p_bytes(T_VAR_STRING, b"new")], [op_completed(2, 0)], rebind=False)
        c.ping()
        c.quit()
        out.append(c.build())
    return out


gen_C16 = (lambda f: (lambda rng, tier: f(rng, tier) + _c16_extra(rng, tier)))(gen_C16)


def _c18_extra(rng, tier):
    out = []
    # replies larger than the TLS layer accepts in one write (64 KiB): served exactly as over plaintext
    for i, n in enumerate([70000, 100000, 200000] if tier == "quick" else [65000, 65536, 66000, 70000, 100000, 200000, 500000]):
        for tls in (True, False):
            if tls:
                c = tls_conv("C18-big%d-t" % i, rng, ncmd=0)
                c.msgs = c.msgs[:2]          # SSL request + handshake response
                c.programs = []
            else:
                c = Conv("C18-big%d-p" % i, mode="lockstep", tls=True)
            cols = [col("blob", T_BLOB)]
            data = bytes((j * 7 + n) % 251 for j in range(n))
            c.query("SELECT blob", [op_start(cols), op_write_row([v_bytes(data, "vec")]), op_write_row([v_bytes(b"tail", "bytes")]), op_finish()])
            c.ping()
            c.quit()
            if tls:
                c.meta = {"twin": "C18-big%d-p" % i}
            out.append(c.build())
    # a ClientHello of several KiB arriving in the same read as the SSL request
    for i, alpn in enumerate([3000, 5000, 9000, 14000] if tier == "quick" else [3000, 4000, 4100, 5000, 9000, 14000, 20000]):
        for k, cuts in enumerate([[], [36], [36 + 4096], [36 + 4097], [20]]):
            c = tls_conv("C18-hello%d-%d" % (i, k), rng, ncmd=1)
            c.alpn_bytes = alpn
            sc = c.build()
            sc["transport"]["cuts"] = cuts
            sc["transport"]["chunks"] = []
            sc["transport"]["then"] = 0
            out.append(sc)
    return out


gen_C18 = (lambda f: (lambda rng, tier: f(rng, tier) + _c18_extra(rng, tier)))(gen_C18)


# second round of seeded defects
gen_C01 = (lambda f: (lambda rng, tier: f(rng, tier) + R2.c01_extra(rng, tier)))(gen_C01)
gen_C04 = (lambda f: (lambda rng, tier: f(rng, tier) + R2.c04_extra(rng, tier)))(gen_C04)
gen_C05 = (lambda f: (lambda rng, tier: f(rng, tier) + R2.c05_extra(rng, tier) + R2.c05_exact(rng, tier)))(gen_C05)
gen_C20 = (lambda f: (lambda rng, tier: f(rng, tier) + R2.c20_wedge(rng, tier)))(gen_C20)
gen_C06 = (lambda f: (lambda rng, tier: f(rng, tier) + R2.c06_extra(rng, tier)))(gen_C06)
gen_C07 = (lambda f: (lambda rng, tier: f(rng, tier) + R2.c07_extra(rng, tier)))(gen_C07)
gen_C12 = (lambda f: (lambda rng, tier: f(rng, tier) + R2.c12_extra(rng, tier)))(gen_C12)


# third round of seeded defects
def _plus(f, *extras):
    def g(rng, tier):
        out = f(rng, tier)
        for x in extras:
            out = out + x(rng, tier)
        return out
    return g


gen_C01 = _plus(gen_C01, R3.c01_extra)
gen_C02 = _plus(gen_C02, R3.c02_extra)
gen_C03 = _plus(gen_C03, R3.c03_extra, R3.c03_wide)
gen_C04 = _plus(gen_C04, R3.c04_extra)
gen_C05 = _plus(gen_C05, R3.c05_extra)
gen_C06 = _plus(gen_C06, R3.c06_extra)
gen_C07 = _plus(gen_C07, R3.c07_extra, R3.c07_wide)
gen_C08 = _plus(gen_C08, R3.c08_extra, R3.c08_big)
gen_C10 = _plus(gen_C10, R3.c10_extra)
gen_C13 = _plus(gen_C13, R3.c13_extra, R3.c13_hs)
gen_C17 = _plus(gen_C17, R3.c17_extra)
gen_C18 = _plus(gen_C18, R3.c18_extra)
gen_C19 = (lambda f: (lambda rng, tier, probe=None: f(rng, tier, probe) + R3.c19_flush_faults(probe)))(gen_C19)


# fourth round of seeded defects
gen_C02 = _plus(gen_C02, R4.c02_extra)
gen_C09 = _plus(gen_C09, R4.c09_extra)
gen_C11 = _plus(gen_C11, R4.c11_extra)
gen_C12 = _plus(gen_C12, R4.c12_extra)
gen_C14 = _plus(gen_C14, R4.c14_extra)
gen_C15 = _plus(gen_C15, R4.c15_extra)
gen_C16 = _plus(gen_C16, R4.c16_extra)
gen_C20 = _plus(gen_C20, R4.c20_extra)


# fifth round of seeded defects
gen_C08 = _plus(gen_C08, R5.c08_extra)
gen_C17 = _plus(gen_C17, R5.c17_extra)
gen_C13 = _plus(gen_C13, R5.c13_extra)
gen_C18 = (lambda f: (lambda rng, tier, probe=None: f(rng, tier) + R5.c18_extra(rng, tier, probe)))(gen_C18)
gen_C19 = (lambda f: (lambda rng, tier, probe=None: f(rng, tier, probe) + R5.c19_extra(rng, tier, probe)))(gen_C19)


# sixth round of seeded defects
gen_C02 = _plus(gen_C02, R6.c02_extra)
gen_C06 = _plus(gen_C06, R6.c06_extra)
gen_C07 = _plus(gen_C07, R6.c07_extra)
gen_C08 = _plus(gen_C08, R6.c08_extra)
gen_C10 = _plus(gen_C10, R6.c10_extra)
gen_C11 = _plus(gen_C11, R6.c11_extra)
gen_C18 = (lambda f: (lambda rng, tier, probe=None: f(rng, tier, probe) + R6.c18_extra(rng, tier)))(gen_C18)
gen_C19 = (lambda f: (lambda rng, tier, probe=None: f(rng, tier, probe) + R6.c19_extra(rng, tier, probe)))(gen_C19)


# seventh round of seeded defects
gen_C02 = _plus(gen_C02, R7.c02_extra)
gen_C08 = _plus(gen_C08, R7.c08_extra)
gen_C11 = _plus(gen_C11, R7.c11_extra)
gen_C19 = (lambda f: (lambda rng, tier, probe=None: f(rng, tier, probe) + R7.c19_extra(rng, tier, probe) + R7.c19_tls_partial(rng, tier)))(gen_C19)
