"""Orchestration: build the harness against /repo's working tree, run scenarios on the real code,
validate the recorded traces with TLC (spec/Trace.tla), collect per-run verdicts."""
import json, os, re, shutil, subprocess, sys, time
from concurrent.futures import ThreadPoolExecutor
from fractions import Fraction


try:
    import ctypes
    _LIBC = ctypes.CDLL('libc.so.6', use_errno=True)
except Exception:
    _LIBC = None


def child_setup():
    """children (cargo, harness, TLC, Apalache) die with this process, also when it is killed (PR_SET_PDEATHSIG = 1)"""
    if _LIBC is not None:
        _LIBC.prctl(1, 9)


VERIF = os.path.dirname(os.path.dirname(os.path.abspath(__file__)))
SPEC = os.path.join(VERIF, 'spec')
HARNESS_DIR = os.path.join(VERIF, 'harness')
HARNESS_BIN = os.path.join(HARNESS_DIR, 'target', 'verif', 'vharness')
JAR = '/opt/veriftools/tla/tla2tools.jar:/opt/veriftools/tla/CommunityModules-deps.jar'
ERRREF = os.path.join(SPEC, 'data', 'mysql_errors_ref.json')


class ToolError(Exception):
    pass


def log(*a):
    print(*a, file=sys.stderr, flush=True)


def build_harness():
    env = dict(os.environ, CARGO_NET_OFFLINE='true')
    t0 = time.time()
    r = subprocess.run(['cargo', 'build', '--profile', 'verif', '--offline'], cwd=HARNESS_DIR, env=env, preexec_fn=child_setup,
                       stdout=subprocess.PIPE, stderr=subprocess.STDOUT, text=True)
    if r.returncode != 0:
        log(r.stdout[-4000:])
        raise ToolError('cargo build of the harness failed')
    return time.time() - t0


def run_harness(scen_path, trace_path, progress_path, timeout=1800):
    """Runs scenarios; survives an abort/timeout of the harness process by resuming after the
    scenario that was in flight (recorded as result abort/timeout)."""
    scen_lines = [l for l in open(scen_path) if l.strip()]
    done = 0
    part = 0
    out_parts = []
    while done < len(scen_lines):
        sub = scen_path + '.part%d' % part
        with open(sub, 'w') as f:
            f.writelines(scen_lines[done:])
        tp = trace_path + '.part%d' % part
        try:
            r = subprocess.run([HARNESS_BIN, 'run', sub, tp, '--progress', progress_path], preexec_fn=child_setup,
                               stdout=subprocess.DEVNULL, stderr=subprocess.PIPE, timeout=timeout)
            rc = r.returncode
            err = r.stderr.decode(errors='replace')
        except subprocess.TimeoutExpired:
            rc = -9
            err = 'timeout'
        out_parts.append(tp)
        if rc == 0:
            done = len(scen_lines)
            break
        if rc == 2:
            raise ToolError('harness rejected a scenario: ' + err[-2000:])
        # abnormal end: find the scenario in flight
        try:
            n_in_part = int(open(progress_path).read().split()[0])
        except Exception:
            raise ToolError('harness died without progress information: ' + err[-2000:])
        # truncate the partial trace to complete runs and add a synthetic end event
        lines = open(tp, errors='replace').read().split('\n')
        keep = []
        for ln in lines:
            try:
                json.loads(ln)
                keep.append(ln)
            except Exception:
                pass
        result = 'timeout' if rc == -9 else 'panic'
        site = 'process abort (panic while panicking / stack overflow): ' + (err.strip().split('\n')[-1] if err.strip() else '?')
        keep.append(json.dumps({"e": "end", "result": result, "site": site, "msg": "", "err": {"k": "none", "token": -1},
                                "unflushed": 0, "client_left": 0}))
        with open(tp, 'w') as f:
            f.write('\n'.join(keep) + '\n')
        done += n_in_part
        part += 1
    with open(trace_path, 'w') as out:
        for tp in out_parts:
            with open(tp) as f:
                shutil.copyfileobj(f, out)
            os.remove(tp)
    for p in range(part + 1):
        try:
            os.remove(scen_path + '.part%d' % p)
        except OSError:
            pass


def shard_trace(trace_path, nshards, outdir, max_events=40000):
    """Split a trace into shards at run boundaries, balanced by event count."""
    runs = []
    cur = []
    with open(trace_path) as f:
        for ln in f:
            if ln.startswith('{"') and '"e":"begin"' in ln[:400] and cur:
                runs.append(cur)
                cur = []
            cur.append(ln)
    if cur:
        runs.append(cur)
    total = sum(len(r) for r in runs)
    nshards = max(1, min(nshards, len(runs)))
    per = max(1, min(max_events, (total + nshards - 1) // nshards))
    shards = []
    buf = []
    n = 0
    for r in runs:
        if buf and n + len(r) > per:
            shards.append(buf)
            buf = []
            n = 0
        buf.extend(r)
        n += len(r)
    if buf:
        shards.append(buf)
    paths = []
    for i, s in enumerate(shards):
        p = os.path.join(outdir, 'shard%03d.ndjson' % i)
        with open(p, 'w') as f:
            f.writelines(s)
        paths.append((p, len(s)))
    return paths, len(runs), total


VERDICT_RE = re.compile(r'^<<"VERDICT", "(.*)">>$')


def tlc_trace(shard_path, nevents, workdir, module='Trace', cfg=None, timeout=1800, xmx='3g'):
    md = os.path.join(workdir, 'md_' + os.path.basename(shard_path))
    os.makedirs(md, exist_ok=True)
    env = dict(os.environ, TRACE=shard_path, ERRREF=ERRREF,
               JAVA_TOOL_OPTIONS='-Xss1g -Dtlc2.tool.queue.IStateQueue=StateDeque -Djava.io.tmpdir=' + md)
    cmd = ['java', '-XX:+UseParallelGC', '-Xmx' + xmx, '-cp', JAR, 'tlc2.TLC', '-workers', '1', '-metadir', md,
           '-noGenerateSpecTE', '-nowarning', '-config', cfg or os.path.join(SPEC, module + '.cfg'),
           os.path.join(SPEC, module + '.tla')]
    t0 = time.time()
    try:
        r = subprocess.run(cmd, env=env, cwd=md, stdout=subprocess.PIPE, stderr=subprocess.STDOUT, text=True, preexec_fn=child_setup,
                           timeout=timeout)
    except subprocess.TimeoutExpired:
        raise ToolError('TLC timed out on ' + shard_path)
    out = r.stdout
    verdicts = []
    for ln in out.split('\n'):
        m = VERDICT_RE.match(ln.strip())
        if m:
            inner = json.loads('"' + m.group(1) + '"')
            verdicts.append(json.loads(inner))
    ok = 'Model checking completed. No error has been found.' in out and 'NOT-ALL-EVENTS-CONSUMED' not in out
    states = None
    m = re.search(r'(\d+) states generated, (\d+) distinct states found', out)
    if m:
        states = int(m.group(2))
    if not ok:
        tail = '\n'.join([l for l in out.split('\n') if not re.match(r'^\d+\. Line', l)][-40:])
        raise ToolError('TLC did not validate %s (exit %d):\n%s' % (shard_path, r.returncode, tail))
    shutil.rmtree(md, ignore_errors=True)
    return verdicts, states, time.time() - t0


def validate_trace(trace_path, workdir, jobs=12, module='Trace', max_events=40000):
    sd = os.path.join(workdir, 'shards')
    os.makedirs(sd, exist_ok=True)
    shards, nruns, nevents = shard_trace(trace_path, jobs, sd, max_events)
    verdicts = []
    states = 0
    with ThreadPoolExecutor(max_workers=jobs) as ex:
        futs = [ex.submit(tlc_trace, p, n, workdir, module) for p, n in shards]
        for f in futs:
            v, s, _ = f.result()
            verdicts.extend(v)
            states += s or 0
    if len(verdicts) != nruns:
        raise ToolError('TLC produced %d verdicts for %d runs' % (len(verdicts), nruns))
    return verdicts, states, nevents


# ---- exact decimal -> binary floating point round trip (the one judgement TLA+ cannot make) ----
def float_text_ok(kind, le, text):
    import struct
    try:
        s = bytes(text).decode('ascii')
    except Exception:
        return False
    if kind == 'f32':
        want = struct.unpack('<f', bytes(le))[0]
    else:
        want = struct.unpack('<d', bytes(le))[0]
    if want != want:
        return s.lower() in ('nan',)
    if want in (float('inf'), float('-inf')):
        return s.lower() in (('inf', '+inf', 'infinity') if want > 0 else ('-inf', '-infinity'))
    try:
        q = Fraction(s)
    except Exception:
        return False
    if q == 0:
        z = -0.0 if s.strip().startswith('-') else 0.0
        return (struct.pack('<f', z) if kind == 'f32' else struct.pack('<d', z)) == bytes(le)
    # correct rounding of the exact rational to the target format must give back the same bits
    if kind == 'f64':
        try:
            got = float(q)
        except OverflowError:
            return False
        return struct.pack('<d', got) == bytes(le)
    # f32: round the exact rational to nearest-even single
    got = f32_round(q)
    return got is not None and struct.pack('<f', got) == bytes(le)


def f32_round(q):
    import struct
    # go through double with a correctness check: double has > 2*24+2 bits, so double rounding is
    # exact unless q is within one double-ulp of a single-precision tie; handle by exact comparison
    d = float(q)
    f = struct.unpack('<f', struct.pack('<f', d))[0] if abs(d) < 3.5e38 else None
    if f is None:
        return None
    bits = struct.unpack('<I', struct.pack('<f', f))[0]
    cands = [f]
    for nb in (bits - 1, bits + 1):
        if 0 <= nb <= 0xffffffff:
            c = struct.unpack('<f', struct.pack('<I', nb))[0]
            if c == c and abs(c) != float('inf'):
                cands.append(c)
    best = min(cands, key=lambda c: (abs(Fraction(c) - q), struct.unpack('<I', struct.pack('<f', c))[0] & 1))
    return best
