"""./check selftest - guards against an unbound or vacuous specification:
  (1) every deviation twin spec/MCdev_*.cfg must make TLC report a violation (and every MC_* must pass)
  (2) trace corruption: one recorded field of a good trace of the real server is altered at a time and
      Trace.tla must report a violation carrying the expected property tag."""
import copy, json, os, shutil, sys

from . import run as R
from . import mc as MC
from .proto import *


def base_scenario():
    c = Conv("self-base", mode="lockstep")
    cols = [col("a", T_LONG), col("b", T_VAR_STRING)]
    c.query("SELECT a,b", [op_start(cols), op_write_row([v_int("i32", 41), v_bytes(b"xy", "str")]), op_write_row([v_int("i32", -7), v_none("str")]), op_finish()])
    c.query("INSERT", [op_completed(300, 9)])
    c.query("BAD", [op_error("ER_PARSE_ERROR", b"syntax")])
    c.prepare("P ?", prep_ok(5, [col("p", T_LONGLONG)], [col("x", T_LONG, F_UNSIGNED), col("y", T_VAR_STRING)]))
    c.execute(5, [p_int(T_LONGLONG, 77)], [op_start([col("x", T_LONG, F_UNSIGNED), col("y", T_VAR_STRING)]),
                                           op_write_row([v_int("u32", 12), v_none("str")]), op_finish()])
    c.ping()
    c.quit()
    return c.build()


def find(events, pred, nth=0):
    k = 0
    for i, e in enumerate(events):
        if pred(e):
            if k == nth:
                return i
            k += 1
    raise KeyError('event not found')


def corruptions(ev):
    """(name, expected tags (any of), mutated event list)"""
    out = []

    def mut(name, tags, fn):
        e2 = copy.deepcopy(ev)
        fn(e2)
        out.append((name, tags, e2))

    is_wr = lambda e: e['e'] == 'wr'
    # the k-th server write after the handshake OK
    def wr_with(first_byte_pos, val, nth=0):
        return lambda e: e['e'] == 'wr' and len(e['b']) > first_byte_pos and e['b'][first_byte_pos] == val

    mut('drop a flush', {'C12'}, lambda E: E.pop(find(E, lambda e: e['e'] == 'fl', 3)))
    def seqbyte(E):
        i = find(E, lambda e: e['e'] == 'wr' and e['b'][4] == 0 and len(e['b']) == 11, 1)   # an OK packet
        E[i]['b'][3] = (E[i]['b'][3] + 1) % 256
    mut('alter a sequence id', {'C05'}, seqbyte)
    def okrows(E):
        i = find(E, lambda e: e['e'] == 'wr' and e['b'][4] == 0 and e['b'][5] == 0xfc)       # OK with rows=300
        E[i]['b'][6] ^= 1
    mut('alter an affected-row count', {'C14'}, okrows)
    def cbtext(E):
        i = find(E, lambda e: e['e'] == 'cb' and e.get('name') == 'on_query')
        E[i]['text'][0] ^= 0x20
    mut('alter a callback argument', {'C02', 'C01'}, cbtext)
    def delreply(E):
        i = find(E, lambda e: e['e'] == 'wr' and e['b'][4] == 0 and e['b'][5] == 0xfc)
        E.pop(i)
    mut('delete a reply', {'C03'}, delreply)
    def dupreply(E):
        i = find(E, lambda e: e['e'] == 'wr' and e['b'][4] == 0 and e['b'][5] == 0xfc)
        E.insert(i, copy.deepcopy(E[i]))
    mut('duplicate a reply', {'C03', 'C05'}, dupreply)
    def errcode(E):
        i = find(E, lambda e: e['e'] == 'wr' and e['b'][4] == 0xff)
        E[i]['b'][5] ^= 1
    mut('alter an error code', {'C13'}, errcode)
    def errstate(E):
        i = find(E, lambda e: e['e'] == 'wr' and e['b'][4] == 0xff)
        E[i]['b'][8] ^= 1
    mut('alter an SQLSTATE', {'C13'}, errstate)
    def colname(E):
        i = find(E, lambda e: e['e'] == 'wr' and len(e['b']) > 12 and e['b'][4:8] == [3, 100, 101, 102])
        E[i]['b'][-13] ^= 1     # last byte of org_name/name region: the byte before the fixed-length block is name-related
    def coltype(E):
        i = find(E, lambda e: e['e'] == 'wr' and len(e['b']) > 12 and e['b'][4:8] == [3, 100, 101, 102])
        E[i]['b'][-6] ^= 4      # column type byte
    mut('alter a column type in a definition', {'C09'}, coltype)
    def textcell(E):
        i = find(E, lambda e: e['e'] == 'wr' and e['b'][4:7] == [2, 52, 49])   # text row "41", ...
        E[i]['b'][6] = 50
    mut('alter a text cell', {'C06'}, textcell)
    def bitmap(E):
        i = find(E, lambda e: e['e'] == 'wr' and len(e['b']) == 10 and e['b'][4] == 0 and e['b'][5] == 8)   # binary row: 00, bitmap(08), u32
        E[i]['b'][5] = 0
    mut('clear a NULL-bitmap bit', {'C07'}, bitmap)
    def binval(E):
        i = find(E, lambda e: e['e'] == 'wr' and len(e['b']) == 10 and e['b'][4] == 0 and e['b'][5] == 8)
        E[i]['b'][6] ^= 1
    mut('alter a binary integer', {'C15', 'C07'}, binval)
    def pv(E):
        i = find(E, lambda e: e['e'] == 'pv')
        E[i]['inner']['le'][0] ^= 1
    mut('alter a delivered parameter', {'C08'}, pv)
    def pvconv(E):
        i = find(E, lambda e: e['e'] == 'pv')
        E[i]['conv']['le'][1] ^= 1
    mut('alter a converted parameter', {'C08'}, pvconv)
    def result(E):
        E[-1]['result'] = 'err'
        E[-1]['err'] = {'k': 'io', 'kind': 'Other', 'msg': 'x', 'injected': False, 'token': -1}
    mut('turn the result into an error', {'C19'}, result)
    def panic(E):
        E[-1]['result'] = 'panic'
        E[-1]['site'] = 'src/lib.rs|x'
    mut('turn the result into a panic', {'C20'}, panic)
    def greet(E):
        i = find(E, is_wr)
        E[i]['b'][4] = 9
    mut('alter the protocol version of the greeting', {'C11'}, greet)
    def user(E):
        i = find(E, lambda e: e['e'] == 'cb' and e.get('name') == 'auth')
        E[i]['user'][0] ^= 1
    mut('alter the authenticated user', {'C11'}, user)
    def closecb(E):
        # pretend the prepared statement was executed after the registry forgot it: drop the reply op
        i = find(E, lambda e: e['e'] == 'w' and e['op'].get('op') == 'reply')
        E[i]['res'] = 'err'
    mut('execute of a statement whose reply failed', {'C10'}, closecb)
    return out


def main(a):
    R.build_harness()
    work = os.path.join(R.VERIF, 'work', 'selftest-%d' % os.getpid())
    os.makedirs(work, exist_ok=True)
    bad = 0
    try:
        # (1) spec mutants
        import glob
        devs = sorted(os.path.basename(p) for p in glob.glob(os.path.join(R.SPEC, 'MCdev_*.cfg')))
        for cfg in devs:
            module = 'MC_' + cfg.split('_')[1].replace('.cfg', '')
            r = MC.tlc_mc(module, cfg, work, 4)
            ok = r['violated'] and not r['evalerr']
            print('%-32s %s' % (cfg, 'violation reported (as required)' if ok else 'NO VIOLATION - vacuous?'))
            bad += 0 if ok else 1
        # (2) trace corruption
        sp = os.path.join(work, 's.jsonl')
        tp = os.path.join(work, 't.ndjson')
        with open(sp, 'w') as f:
            f.write(json.dumps(base_scenario()) + '\n')
        R.run_harness(sp, tp, os.path.join(work, 'p'))
        ev = [json.loads(l) for l in open(tp) if l.strip()]
        cases = [('unmodified', set(), ev)] + corruptions(ev)
        allp = os.path.join(work, 'all.ndjson')
        with open(allp, 'w') as f:
            for k, (name, tags, E) in enumerate(cases):
                E[0]['run'] = 'case%02d' % k
                for e in E:
                    f.write(json.dumps(e) + '\n')
        verdicts, _, _ = R.tlc_trace(allp, 0, work)
        for k, (name, tags, E) in enumerate(cases):
            v = [x for x in verdicts if x['run'] == 'case%02d' % k][0]
            got = {x['p'] for x in v['viol']}
            ok = (got == set()) if not tags else bool(got & tags)
            print('%-44s expected %-14s got %-24s %s' % (name, ','.join(sorted(tags)) or '-', ','.join(sorted(got)) or '-', 'ok' if ok else 'MISSED'))
            bad += 0 if ok else 1
    finally:
        shutil.rmtree(work, ignore_errors=True)
    print('selftest: %d problems' % bad)
    return 1 if bad else 0
