"""TLC model-checking of the operational models (spec/MC_*.cfg) and extraction of behaviours for
spec->implementation replay."""
import os, re, subprocess, time
from . import run as R

MODELS = {}   # property -> list of (model name, cfg, extractor or None); filled in below


def tlc_mc(module, cfg, work, workers=8, timeout=900, extra_env=None, simulate=None):
    md = os.path.join(work, 'mc_' + os.path.basename(cfg))
    os.makedirs(md, exist_ok=True)
    env = dict(os.environ, JAVA_TOOL_OPTIONS='-Xss512m -Djava.io.tmpdir=' + md)
    if extra_env:
        env.update(extra_env)
    cmd = ['java', '-XX:+UseParallelGC', '-Xmx6g', '-cp', R.JAR, 'tlc2.TLC', '-workers', str(workers), '-metadir', md,
           '-noGenerateSpecTE', '-nowarning', '-coverage', '1', '-config', os.path.join(R.SPEC, cfg)]
    if simulate:
        cmd += ['-simulate', simulate]
    cmd += [os.path.join(R.SPEC, module + '.tla')]
    t0 = time.time()
    try:
        r = subprocess.run(cmd, env=env, cwd=md, stdout=subprocess.PIPE, stderr=subprocess.STDOUT, text=True, timeout=timeout)
    except subprocess.TimeoutExpired:
        raise R.ToolError('TLC timed out on ' + cfg)
    out = r.stdout
    m = re.search(r'(\d+) states generated, (\d+) distinct states found', out)
    gen, distinct = (int(m.group(1)), int(m.group(2))) if m else (0, 0)
    ok = 'Model checking completed. No error has been found.' in out
    violated = re.search(r'Error: Invariant (\S+) is violated', out) or re.search(r'is violated', out)
    return dict(ok=ok, violated=bool(violated), generated=gen, distinct=distinct, out=out, wall=time.time() - t0)


def run_models(pid, tier, work, jobs, rng):
    info = {'states': 0, 'transitions': 0, 'models': [], 'exhaustive': False}
    s2i = []
    for spec in MODELS.get(pid, []):
        res, scen = spec(tier, work, jobs, rng)
        for r in res:
            info['states'] += r['distinct']
            info['transitions'] += r['generated']
            info['models'].append({k: r[k] for k in ('name', 'cfg', 'distinct', 'generated', 'wall', 'expect', 'constants') if k in r})
        info['exhaustive'] = True
        s2i.extend(scen)
    return info, s2i
