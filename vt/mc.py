"""TLC model-checking of the operational models (spec/MC_*.cfg): every model must pass, every
deviation twin (spec/MCdev_*.cfg) must FAIL (spec mutants guard against a vacuous model), and
behaviours are extracted (REPLAY lines) for spec->implementation replay on the real server."""
import json, os, re, subprocess, time
from concurrent.futures import ThreadPoolExecutor

from . import run as R
from .proto import *

SIM_SEED = 1
REPLAY_RE = re.compile(r'^<<"REPLAY", "(.*)">>$')


def tlc_mc(module, cfg, work, workers=4, timeout=1500, simulate=None, want_replay=False):
    md = os.path.join(work, 'mc_' + cfg.replace('.cfg', '') + ('_sim' if simulate else ''))
    os.makedirs(md, exist_ok=True)
    env = dict(os.environ, ERRREF=R.ERRREF, JAVA_TOOL_OPTIONS='-Xss512m -Djava.io.tmpdir=' + md)
    cmd = ['java', '-XX:+UseParallelGC', '-Xmx6g', '-cp', R.JAR, 'tlc2.TLC', '-workers', str(workers), '-metadir', md,
           '-noGenerateSpecTE', '-nowarning', '-config', os.path.join(R.SPEC, cfg)]
    if simulate:
        # deterministic simulation: the behaviours depend only on VERIF_SEED
        cmd += ['-simulate', simulate[0], '-depth', str(simulate[1]), '-seed', str(SIM_SEED), '-aril', '0']
    elif module not in ('MC_Writer', 'MC_Codec', 'MC_Robust', 'MC_Utf8'):
        # (coverage bookkeeping exhausts the heap on the models that embed the 886-entry error table)
        cmd += ['-coverage', '1']
    cmd += [os.path.join(R.SPEC, module + '.tla')]
    t0 = time.time()
    try:
        r = subprocess.run(cmd, env=env, cwd=md, stdout=subprocess.PIPE, stderr=subprocess.STDOUT, text=True, timeout=timeout, preexec_fn=R.child_setup)
    except subprocess.TimeoutExpired:
        raise R.ToolError('TLC timed out on ' + cfg)
    out = r.stdout
    m = re.search(r'(\d+) states generated, (\d+) distinct states found', out)
    gen, distinct = (int(m.group(1)), int(m.group(2))) if m else (0, 0)
    if simulate and not m:
        m2 = re.search(r'(\d+) states checked', out)
        gen = distinct = int(m2.group(1)) if m2 else 0
    ok = 'Model checking completed. No error has been found.' in out or (simulate and 'Error:' not in out and 'is violated' not in out)
    violated = 'is violated' in out or 'Deadlock reached' in out
    evalerr = ('Error:' in out) and not violated
    replays = []
    if want_replay:
        for ln in out.split('\n'):
            mm = REPLAY_RE.match(ln.strip())
            if mm:
                replays.append(json.loads(json.loads('"' + mm.group(1) + '"')))
    # actions never taken (vacuity guard) - only for BFS runs with coverage
    untaken = []
    if not simulate:
        for mm in re.finditer(r'^<(\w+) line .*>: (\d+):(\d+)$', out, re.M):
            # NextAfter (MC_Tls) is enabled only under the KeepRemaining deviation
            if mm.group(1) not in ('Init', 'NextAfter') and int(mm.group(3)) == 0:
                untaken.append(mm.group(1))
    import shutil
    shutil.rmtree(md, ignore_errors=True)
    return dict(name=cfg.replace('.cfg', ''), cfg=cfg, module=module, ok=bool(ok), violated=violated, evalerr=evalerr, generated=gen, distinct=distinct,
                wall=round(time.time() - t0, 1), replays=replays, untaken=untaken, tail=out[-1500:])


def apalache_ind(work, cinit, expect_ok, mod='FramerAbs'):
    """Inductive-invariant check of spec/apalache/FramerAbs.tla (unbounded message length, real PMAX):
    Init => IndInv and IndInv /\\ Next => IndInv'.  Returns dict like tlc_mc."""
    out_dir = os.path.join(work, 'apalache_' + mod + '_' + cinit)
    spec = os.path.join(R.SPEC, 'apalache', mod + '.tla')
    t0 = time.time()
    res = []
    for init, length in (('Init', 0), ('IndInit', 1)):
        try:
            r = subprocess.run(['apalache-mc', 'check', '--cinit=' + cinit, '--init=' + init, '--inv=IndInv', '--length=%d' % length,
                                '--out-dir=' + out_dir, spec], cwd=work, env=dict(os.environ, JAVA_IO_TMPDIR=work, TMPDIR=work, JVM_ARGS='-Djava.io.tmpdir=' + work), stdout=subprocess.PIPE, stderr=subprocess.STDOUT, text=True, timeout=900, preexec_fn=R.child_setup)
        except subprocess.TimeoutExpired:
            raise R.ToolError('apalache timed out on ' + mod + ' (' + cinit + ')')
        ok = 'EXITCODE: OK' in r.stdout
        viol = 'violated' in r.stdout
        if not ok and not viol:
            raise R.ToolError('apalache failed on %s (%s):\n%s' % (mod, cinit, r.stdout[-1500:]))
        res.append(ok)
    import shutil
    shutil.rmtree(out_dir, ignore_errors=True)
    allok = all(res)
    if expect_ok and not allok:
        raise R.ToolError(mod + ': the inductive invariant does not hold for the design')
    if not expect_ok and allok:
        raise R.ToolError('%s: deviation %s did not break the inductive invariant (vacuous?)' % (mod, cinit))
    return dict(name=mod + '/' + cinit + ' (Apalache, inductive)', module=mod, distinct=0, generated=0, wall=round(time.time() - t0, 1),
                expect='pass' if expect_ok else 'fail', obligations=2, discharged=sum(1 for x in res if x))


# (module, cfg, expect)   expect: 'pass' | 'fail'
def models_for(pid, tier):
    deep = tier != 'quick'
    M = {
        'C01': [('MC_Reader', 'MC_Reader_deep.cfg' if deep else 'MC_Reader.cfg', 'pass'), ('MC_Reader', 'MC_Reader_trunc.cfg', 'pass'),
                ('MC_Reader', 'MCdev_Reader_nodrain.cfg', 'fail'), ('MC_Reader', 'MCdev_Reader_stale.cfg', 'fail')],
        'C02': [('MC_Robust', 'MC_Robust.cfg', 'pass'), ('MC_Flow', 'MC_Flow.cfg', 'pass'), ('MC_Utf8', 'MC_Utf8.cfg', 'pass')],
        'C03': [('MC_Writer', 'MC_Writer_deep.cfg' if deep else 'MC_Writer.cfg', 'pass'), ('MC_Writer', 'MCdev_Writer_more.cfg', 'fail'),
                ('MC_Writer', 'MCdev_Writer_eof0.cfg', 'fail'), ('MC_Writer', 'MCdev_Writer_leak.cfg', 'fail')],
        'C04': [('MC_Framer', 'MC_Framer_deep.cfg' if deep else 'MC_Framer.cfg', 'pass'), ('MC_Framer', 'MC_Framer_p5.cfg', 'pass'),
                ('MC_Framer', 'MCdev_Framer_header.cfg', 'fail'), ('MC_Framer', 'MCdev_Framer_closer.cfg', 'fail')],
        'C05': [('MC_Framer', 'MC_Framer.cfg', 'pass')],
        'C06': [('MC_Codec', 'MC_Codec.cfg', 'pass')],
        'C07': [('MC_Codec', 'MC_Codec.cfg', 'pass')],
        'C08': [('MC_Codec', 'MC_Codec.cfg', 'pass'), ('MC_Stmts', 'MC_Stmts.cfg', 'pass'), ('MC_Stmts', 'MCdev_Stmts_emptylong.cfg', 'fail')],
        'C09': [('MC_Codec', 'MC_Codec.cfg', 'pass')],
        'C10': [('MC_Stmts', 'MC_Stmts_deep.cfg' if deep else 'MC_Stmts.cfg', 'pass'), ('MC_Stmts', 'MCdev_Stmts_noremove.cfg', 'fail'),
                ('MC_Stmts', 'MCdev_Stmts_stale.cfg', 'fail')],
        'C11': [('MC_Flow', 'MC_Flow.cfg', 'pass'), ('MC_Flow', 'MCdev_Flow_nogate.cfg', 'fail')],
        'C12': [('MC_Flow', 'MC_Flow_deep.cfg' if deep else 'MC_Flow.cfg', 'pass'), ('MC_Flow', 'MC_Flow_live.cfg', 'pass'),
                ('MC_Flow', 'MCdev_Flow_noflush.cfg', 'fail'), ('MC_Reader', 'MC_Reader.cfg', 'pass'), ('MC_Reader', 'MCdev_Reader_saturated.cfg', 'fail')],
        'C13': [('MC_Codec', 'MC_Codec.cfg', 'pass')],
        'C14': [('MC_Codec', 'MC_Codec.cfg', 'pass')],
        'C15': [('MC_Codec', 'MC_Codec.cfg', 'pass')],
        'C16': [('MC_Stmts', 'MC_Stmts_deep.cfg' if deep else 'MC_Stmts.cfg', 'pass'), ('MC_Stmts', 'MCdev_Stmts_flag.cfg', 'fail')],
        'C17': [('MC_Stmts', 'MC_Stmts_deep.cfg' if deep else 'MC_Stmts.cfg', 'pass'), ('MC_Stmts', 'MCdev_Stmts_noclear.cfg', 'fail'),
                ('MC_Stmts', 'MCdev_Stmts_clearall.cfg', 'fail'), ('MC_Stmts', 'MCdev_Stmts_emptylong.cfg', 'fail')],
        'C18': [('MC_Tls', 'MC_Tls.cfg', 'pass'), ('MC_Tls', 'MCdev_Tls_keep.cfg', 'fail'), ('MC_Tls', 'MCdev_Tls_nothing.cfg', 'fail'),
                ('MC_Tls', 'MCdev_Tls_fromstart.cfg', 'fail'), ('MC_TlsWrite', 'MC_TlsWrite.cfg', 'pass'),
                ('MC_TlsWrite', 'MCdev_TlsWrite_queueonly.cfg', 'fail')],
        'C19': [('MC_Flow', 'MC_Flow_faults.cfg', 'pass'), ('MC_Reader', 'MC_Reader_trunc.cfg', 'pass'), ('MC_Flow', 'MCdev_Flow_swallow.cfg', 'fail'),
                ('MC_Reader', 'MCdev_Reader_eof.cfg', 'fail')],
        'C20': [('MC_Robust', 'MC_Robust_deep.cfg' if deep else 'MC_Robust.cfg', 'pass')],
    }
    return M.get(pid, [])


# ---- behaviours -> scenarios ----------------------------------------------------------------
def writer_scenarios(replays, tag):
    out = []
    for i, r in enumerate(replays):
        ops = [x['op'] for x in r['prog']]
        expect = [x['res'] for x in r['prog']]
        c = Conv('%s-mcw-%05d' % (tag, i), mode='lockstep' if i % 2 else 'pipelined',
                 meta={'origin': 'tlc-behaviour', 'model': 'MC_Writer', 'expect_res': expect, 'outcome': r['outcome']})
        if r['bin']:
            c.prepare('S', prep_ok(1, [], []))
            c.execute(1, [], ops)
        else:
            c.query('Q', ops)
        c.ping()
        c.quit()
        out.append(c.build())
    return out


def stmts_scenarios(replays, tag):
    out = []
    inline = {1: 5, 8: 0x0807060504030201}
    for i, r in enumerate(replays):
        c = Conv('%s-mcs-%05d' % (tag, i), mode='lockstep' if i % 2 else 'pipelined',
                 meta={'origin': 'tlc-behaviour', 'model': 'MC_Stmts', 'result': r['result']})
        pend = {}
        for h in r['hist']:
            op = h['op']
            if op == 'prepare':
                c.prepare('S%d' % h['id'], prep_ok(h['id'], [col('p%d' % k, T_VAR_STRING) for k in range(h['np'])], []))
                pend[h['id']] = set()
            elif op == 'prepare_err':
                c.prepare('BAD', prep_err('ER_PARSE_ERROR'))
            elif op == 'close':
                c.cmd(com_close(h['id']))
                pend.pop(h['id'], None)
            elif op == 'long':
                c.cmd(com_long_data(h['id'], h['p'], bytes(h['chunk'])))
                if h['id'] in pend:
                    pend[h['id']].add(h['p'])
            elif op == 'execute':
                ps = []
                for k, t in enumerate(h['types']):
                    ty, uns = t['ty'], t['uns']
                    if h['nulls'][k]:
                        ps.append(p_null(ty, uns))
                    elif k in pend.get(h['id'], set()):
                        ps.append(dict(ty=ty, uns=uns, long=True, enc=[]))
                    elif ty == 253:
                        ps.append(p_bytes(ty, b'ab'))
                    else:
                        ps.append(p_int(ty, inline[ty], uns))
                c.execute(h['id'], ps, [op_completed(1, 0)], rebind=h['rebind'])
                if h['id'] in pend:
                    pend[h['id']] = set()
        c.ping()
        if r['result'] == 'running':
            c.quit()
        out.append(c.build())
    return out


def flow_scenarios(replays, tag, rng):
    out = []
    for i, r in enumerate(replays):
        c = Conv('%s-mcf-%05d' % (tag, i), mode=r['mode'], auth='accept' if r['authOk'] else 'reject',
                 meta={'origin': 'tlc-behaviour', 'model': 'MC_Flow', 'result': r['result']})
        has_long = 'longdata' in r['script']
        sizes = [len(c.msgs[0]['b'])]
        if has_long:
            if r['authOk']:
                c.prepare('S', prep_ok(5, [col('p', T_BLOB)], []))
            else:
                c.cmd(com_prepare('S'))
            sizes[0] += len(c.msgs[-1]['b'])
        for k in r['script']:
            if k == 'ping':
                c.ping()
            elif k == 'query':
                c.query('Q', [op_completed(1, 1)] if r['authOk'] else None)
            elif k == 'close':
                c.cmd(com_close(77))
            elif k == 'longdata':
                c.cmd(com_long_data(5, 0, b'xy'))
            elif k == 'quit':
                c.quit()
            sizes.append(len(c.msgs[-1]['b']))
        # reads as the model grouped them (pipelined): cut positions at group ends
        if r['mode'] == 'pipelined':
            groups = [int(h[4:]) for h in r['hist'] if h.startswith('read')]
            cuts, pos, idx = [], 0, 0
            for g in groups:
                for _ in range(g):
                    if idx < len(sizes):
                        pos += sizes[idx]
                        idx += 1
                cuts.append(pos)
            sc = c.build()
            sc['transport']['cuts'] = sorted(set(x for x in cuts if x > 0))
        else:
            sc = c.build()
        out.append(sc)
    return out


def reader_scenarios(replays, tag, limit):
    """MC_Reader behaviours (PMAX = 3) mapped to the real PMAX by landmarks: a payload of a*3+d bytes becomes
    a*(2^24-1)+d bytes; a read boundary inside a header stays at that header byte; a boundary at the first /
    last / an interior byte of a full fragment maps to the first / last / an interior byte of the real fragment."""
    from . import gens_big as GB
    PMm = 3
    out = []
    # prefer behaviours that cross fragment boundaries with several reads
    cand = [r for r in replays if all(x >= 1 for x in r['lens']) and any(x >= PMm for x in r['lens']) and len(r['chunks']) >= 3]
    cand.sort(key=lambda r: (-len(set(r['chunks'])), -len(r['chunks'])))
    seen = set()
    for r in cand:
        key = (tuple(r['lens']), tuple(r['chunks'][:6]))
        if key in seen:
            continue
        seen.add(key)
        c = GB.BigConv('%s-mcr-%03d' % (tag, len(out)), mode='pipelined', meta={'origin': 'tlc-behaviour', 'model': 'MC_Reader', 'lens': r['lens'], 'chunks': r['chunks']})
        base = sum(GB.runs_len(m['b']) for m in c.msgs)       # the handshake precedes the modelled stream
        mapping = {0: 0}                                       # model offset -> real offset (relative to the modelled stream)
        moff, roff = 0, 0
        for i, ln in enumerate(r['lens']):
            real_len = (ln // PMm) * GB.PM + (ln % PMm)
            c.cmd_runs(GB.canon([[3, 1]] + GB.pattern_ascii(real_len - 1, i)), r['seq0s'][i])
            c.programs.append([op_completed(i, 0)])
            left_m, left_r = ln, real_len
            while True:
                fm = min(left_m, PMm)
                fr = GB.PM if fm == PMm else left_m
                for h in range(1, 5):                          # header bytes
                    mapping[moff + h] = roff + h
                moff += 4
                roff += 4
                for j in range(1, fm + 1):                     # payload bytes of this fragment
                    if j == fm:
                        mapping[moff + j] = roff + fr
                    elif j == 1:
                        mapping[moff + j] = roff + 1
                    else:
                        mapping[moff + j] = roff + fr // 2 + j
                moff += fm
                roff += fr
                left_m -= fm
                left_r -= fr
                if fm < PMm:
                    break
        pos = 0
        cuts = []
        for k in r['chunks']:
            pos += k
            if pos in mapping:
                cuts.append(base + mapping[pos])
        c.cuts = cuts
        c.small(com_quit())
        out.append(c.build())
        if len(out) >= limit:
            break
    return out


def run_models(pid, tier, work, jobs, rng):
    global SIM_SEED
    SIM_SEED = rng.randrange(1, 2**31 - 1)
    specs = models_for(pid, tier)
    info = {'states': 0, 'transitions': 0, 'models': [], 'exhaustive': bool(specs)}
    s2i = []
    tasks = []
    with ThreadPoolExecutor(max_workers=4) as ex:
        futs = [(expect, ex.submit(tlc_mc, module, cfg, work, 4)) for module, cfg, expect in specs]
        # behaviour extraction
        emit = []
        if pid == 'C03':
            emit.append(('writer', ex.submit(tlc_mc, 'MC_Writer', 'MC_Writer_emit4.cfg' if tier != 'quick' else 'MC_Writer_emit.cfg', work, 1, 1500, None, True)))
        if pid in ('C10', 'C16', 'C17', 'C08'):
            n = 400 if tier == 'quick' else 3000
            emit.append(('stmts', ex.submit(tlc_mc, 'MC_Stmts', 'MC_Stmts_sim.cfg', work, 1, 1500, ('num=%d' % n, 14), True)))
        if pid == 'C01':
            emit.append(('reader', ex.submit(tlc_mc, 'MC_Reader', 'MC_Reader_sim.cfg', work, 1, 1500, ('num=%d' % (300 if tier == 'quick' else 3000), 80), True)))
        if pid in ('C12', 'C11', 'C02'):
            emit.append(('flow', ex.submit(tlc_mc, 'MC_Flow', 'MC_Flow_emit.cfg', work, 1, 1500, None if tier != 'quick' else ('num=400', 60), True)))
        apal = []
        if pid == 'C04':
            apal = [ex.submit(apalache_ind, work, 'ConstInit', True), ex.submit(apalache_ind, work, 'ConstInitHdr', False),
                    ex.submit(apalache_ind, work, 'ConstInitNoCloser', False)]
        if pid == 'C01':
            apal = [ex.submit(apalache_ind, work, 'ConstInit', True, 'ReaderAbs'), ex.submit(apalache_ind, work, 'ConstInitNoDrain', False, 'ReaderAbs'),
                    ex.submit(apalache_ind, work, 'ConstInitStale', False, 'ReaderAbs')]
        if pid == 'C05':
            apal = [ex.submit(apalache_ind, work, 'ConstInit', True, 'SeqAbs'), ex.submit(apalache_ind, work, 'ConstInitSaturates', False, 'SeqAbs'),
                    ex.submit(apalache_ind, work, 'ConstInitNoRestart', False, 'SeqAbs'), ex.submit(apalache_ind, work, 'ConstInitFirstFragment', False, 'SeqAbs')]
        for f in apal:
            info['models'].append(f.result())
        for expect, f in futs:
            r = f.result()
            r['expect'] = expect
            if r['evalerr']:
                raise R.ToolError('TLC evaluation error in %s:\n%s' % (r['cfg'], r['tail']))
            if expect == 'pass' and not r['ok']:
                raise R.ToolError('model %s does not satisfy its properties:\n%s' % (r['cfg'], r['tail']))
            if expect == 'fail' and not r['violated']:
                raise R.ToolError('deviation model %s did not produce a violation (vacuous specification?)' % r['cfg'])
            if expect == 'pass' and r['untaken']:
                raise R.ToolError('model %s: actions never taken: %s' % (r['cfg'], r['untaken']))
            info['states'] += r['distinct']
            info['transitions'] += r['generated']
            info['models'].append({k: r[k] for k in ('name', 'module', 'distinct', 'generated', 'wall', 'expect')})
        for kind, f in emit:
            r = f.result()
            if r['evalerr'] or r['violated']:
                raise R.ToolError('behaviour extraction failed for %s:\n%s' % (r['cfg'], r['tail']))
            reps = r['replays']
            if kind == 'writer':
                s2i += writer_scenarios(reps, pid)
            elif kind == 'reader':
                s2i += reader_scenarios(reps, pid, 6 if tier == 'quick' else 40)
            elif kind == 'stmts':
                # de-duplicate histories
                seen, uniq = set(), []
                for x in reps:
                    k = json.dumps(x, sort_keys=True)
                    if k not in seen and len(x['hist']) >= 2:
                        seen.add(k)
                        uniq.append(x)
                s2i += stmts_scenarios(uniq[:400 if tier == 'quick' else 5000], pid)
            elif kind == 'flow':
                seen, uniq = set(), []
                for x in reps:
                    k = json.dumps([x['script'], x['mode'], x['authOk'], [h for h in x['hist'] if h.startswith('read')]])
                    if k not in seen:
                        seen.add(k)
                        uniq.append(x)
                if tier == 'quick':
                    rng.shuffle(uniq)
                    uniq = uniq[:300]
                s2i += flow_scenarios(uniq, pid, rng)
            info['models'].append({'name': r['name'] + ' (behaviours)', 'module': r['module'], 'distinct': r['distinct'], 'generated': r['generated'],
                                   'wall': r['wall'], 'expect': 'emit', 'behaviours': len(reps)})
    return info, s2i
