"""Scenario generators for 16-50 MiB messages.  Everything is expressed in runs [byte, count] so that
neither Python nor TLC ever materialises the bytes; the harness expands them for the real server."""
from .proto import *

PM = PMAX


def runs_len(r):
    return sum(x[1] for x in r)


def canon(runs):
    out = []
    for b_, n in runs:
        if n <= 0:
            continue
        if out and out[-1][0] == b_:
            out[-1][1] += n
        else:
            out.append([b_, n])
    return out


def lit(bs):
    return canon([[x, 1] for x in bs])


def pattern(n, salt=0):
    """n bytes made of a few long runs with awkward lengths (a lost/duplicated/shifted byte changes a count)"""
    if n <= 0:
        return []
    base = [65 + (salt % 20), 97 + (salt % 23), 48 + (salt % 9), 200 + (salt % 50), 7]
    parts = [n // 3 + 1, n // 5 + 3, n // 7 + 11, n // 11 + 5]
    out = []
    left = n
    i = 0
    while left > 0:
        k = min(left, parts[i % len(parts)] + (i * 13) % 17)
        out.append([base[i % len(base)], k])
        left -= k
        i += 1
    return canon(out)


def pattern_ascii(n, salt=0):
    return canon([[32 + (x % 90), k] for x, k in pattern(n, salt)])


def take(runs, k):
    out = []
    for b_, n in runs:
        if k <= 0:
            break
        t = min(n, k)
        out.append([b_, t])
        k -= t
    return out


def drop(runs, k):
    out = []
    for b_, n in runs:
        if k >= n:
            k -= n
            continue
        out.append([b_, n - k])
        k = 0
    return out


def frame_runs(payload, seq0=0, sizes=None, seqs=None):
    """conformant framing of payload runs (or explicit fragment sizes / sequence ids); returns runs"""
    total = runs_len(payload)
    out = []
    seq = seq0
    rest = payload
    i = 0
    if sizes is None:
        sizes = []
        left = total
        while left >= PM:
            sizes.append(PM)
            left -= PM
        sizes.append(left)
    for sz in sizes:
        s = seqs[i] if seqs else seq
        out += [[x, 1] for x in hdr(sz, s)]
        out += take(rest, sz)
        rest = drop(rest, sz)
        seq = (seq + 1) % 256
        i += 1
    return canon(out)


def vbig(runs, kind="bytes"):
    r = canon(runs)
    return {"k": kind, "b": r, "c": {"t": "bytes", "b": r}}


def vnull():
    return {"k": "none", "of": "u8", "c": {"t": "null"}}


def rcol(name, ty=T_BLOB, fl=0):
    return {"t": lit(b"t"), "n": lit(name.encode()), "ty": ty, "fl": fl}


def lenenc_hdr_len(n):
    return 1 if n < 251 else 3 if n < 65536 else 4 if n < (1 << 24) else 9


def cell_len_for_total(total):
    """largest cell length whose lenenc encoding fits in `total` bytes, and the slack"""
    for h in (9, 4, 3, 1):
        n = total - h
        if n >= 0 and lenenc_hdr_len(n) == h:
            return n
    # no length class fits exactly (total just above a class boundary): the largest cell that still fits
    for h in (4, 3, 1):
        n = {4: (1 << 24) - 1, 3: 65535, 1: 250}[h]
        if n + h <= total:
            return n
    return 0


class BigConv(Conv):
    def __init__(self, sid, **kw):
        super().__init__(sid, hs=False, **kw)
        self.enc = "rle"
        self.cuts = []
        self.msgs.append({"b": lit(frame(handshake41(b"root"), 1)), "reply": True})

    def cmd_runs(self, payload_runs, seq0=0, reply=True, sizes=None, seqs=None):
        self.msgs.append({"b": frame_runs(payload_runs, seq0, sizes, seqs), "reply": reply})
        return self

    def small(self, payload, seq0=0, reply=None):
        if reply is None:
            reply = not (payload[0] in NOREPLY)
        self.msgs.append({"b": lit(frame(payload, seq0)), "reply": reply})
        return self

    def build(self):
        sc = super().build()
        sc["transport"]["cuts"] = sorted(set(self.cuts))
        sc["transport"]["budget"] = 5000000
        return sc


def gen_C04(rng, tier):
    out = []
    ks = [1, 2] if tier == "quick" else [1, 2, 3]
    ds = [-8, -5, -4, -3, -1, 0, 1, 4, 8] if tier == "quick" else list(range(-8, 9))
    comps = ["one", "small_big", "big_small", "halves", "many", "err", "errterm"]
    i = 0
    for k in ks:
        for d in ds:
            for binary in (False, True):
                total = k * PM + d
                comp = comps[i % len(comps)] if tier == "quick" else None
                for cp in ([comp] if comp else comps):
                    i += 1
                    c = BigConv("C04-%d-%+d-%s-%s" % (k, d, "b" if binary else "t", cp), mode="lockstep",
                                meta={"k": k, "d": d, "comp": cp, "bin": binary})
                    if cp in ("err", "errterm"):
                        msg = pattern(total - 9, i)
                        if cp == "err":
                            ops = [{"op": "error", "kind": "ER_NO", "msg": msg}]
                        else:
                            ops = [op_start([rcol("a")]), op_write_row([vbig(pattern(77, i))]), {"op": "finish_error", "kind": "ER_PARSE_ERROR", "msg": msg}]
                    else:
                        overhead = (1 + ((0 + 9) // 8)) if binary else 0   # header + bitmap (adjusted per ncols below)
                        if cp == "one":
                            ncols = 1
                        elif cp in ("small_big", "big_small", "halves"):
                            ncols = 2
                        else:
                            ncols = 16
                        overhead = (1 + (ncols + 9) // 8) if binary else 0
                        body = total - overhead
                        if cp == "one":
                            n = cell_len_for_total(body)
                            cells = [pattern(n, i)]
                            body -= n + lenenc_hdr_len(n)
                        elif cp == "small_big":
                            n = cell_len_for_total(body - 6)
                            cells = [pattern(5, i), pattern(n, i + 1)]
                            body -= 6 + n + lenenc_hdr_len(n)
                        elif cp == "big_small":
                            n = cell_len_for_total(body - 6)
                            cells = [pattern(n, i), pattern(5, i + 1)]
                            body -= 6 + n + lenenc_hdr_len(n)
                        elif cp == "halves":
                            h1 = body // 2
                            n1 = cell_len_for_total(h1)
                            n2 = cell_len_for_total(body - n1 - lenenc_hdr_len(n1))
                            cells = [pattern(n1, i), pattern(n2, i + 1)]
                            body -= n1 + lenenc_hdr_len(n1) + n2 + lenenc_hdr_len(n2)
                        else:
                            per = body // 16
                            cells = []
                            used = 0
                            for j in range(15):
                                n = cell_len_for_total(per)
                                cells.append(pattern(n, i + j))
                                used += n + lenenc_hdr_len(n)
                            n = cell_len_for_total(body - used)
                            cells.append(pattern(n, i + 15))
                            used += n + lenenc_hdr_len(n)
                            body -= used
                        # body may be off by a byte or two where no lenenc class fits exactly; that
                        # only shifts d slightly, the window is swept anyway
                        cols = [rcol("c%d" % j) for j in range(len(cells))]
                        vals = [vbig(x, "bytes" if j % 2 == 0 else "vec") for j, x in enumerate(cells)]
                        if i % 3 == 0:
                            ops = [op_start(cols)] + [op_write_col(v) for v in vals] + [op_end_row(), op_finish()]
                        elif i % 3 == 1:
                            ops = [op_start(cols), op_write_row(vals), op_write_row([vbig(pattern(3, 1)) for _ in cols]), op_finish()]
                        else:
                            ops = [op_start(cols)] + [op_write_col(v) for v in vals] + [op_finish()]
                    if binary:
                        c.small(com_prepare("S"))
                        c.prepares.append({"id": le4(1), "params": [], "cols": []})
                        c.small(com_execute(1, []))
                    else:
                        c.small(com_query("Q"))
                    c.programs.append(ops)
                    c.small(com_ping())
                    c.small(com_quit())
                    out.append(c.build())
    return out


def big_inbound(rng, tier, pid):
    """giant commands under landmark chunkings (C01), long data in giant chunks (C17)"""
    out = []
    lens = [(1, -1), (1, 0), (1, 1), (2, 0), (2, 7)] if tier == "quick" else [(1, -2), (1, -1), (1, 0), (1, 1), (1, 300), (2, -1), (2, 0), (2, 1), (2, 7), (3, 0)]
    i = 0
    for (a, d) in lens:
        n = a * PM + d      # payload length including the command byte
        for variant in (["cuts", "ones_in_headers"] if tier == "quick" else ["cuts", "ones_in_headers", "giant", "random"]):
            i += 1
            c = BigConv("%s-in-%d-%+d-%s" % (pid, a, d, variant), mode="pipelined", meta={"a": a, "d": d, "variant": variant})
            seq0 = rng.choice([0, 0, 254, 255, 7])
            kind = i % 3
            if kind == 0:
                payload = canon([[3, 1]] + pattern_ascii(n - 1, i))
                c.cmd_runs(payload, seq0)
                c.programs.append([op_completed(1, 0)])
            elif kind == 1:
                payload = canon([[0x16, 1]] + pattern_ascii(n - 1, i))
                c.cmd_runs(payload, seq0)
                c.prepares.append({"id": le4(3), "params": [], "cols": []})
            else:
                # long data in two giant chunks + one small, delivered at the next execution
                c.small(com_prepare("S"))
                c.prepares.append({"id": le4(5), "params": [rcol("p")], "cols": []})
                ch1 = pattern(n - 7, i)
                c.cmd_runs(canon([[x, 1] for x in [0x18] + le4(5) + [0, 0]] + ch1), seq0, reply=False)
                c.small(com_long_data(5, 0, b"tail-chunk"))
                c.small(com_execute(5, [p_long(T_BLOB)]))
                c.programs.append([op_completed(0, 0)])
            c.small(com_ping())
            c.small(com_query("after"))
            c.programs.append([op_completed(2, 0)])
            c.small(com_quit())
            # landmark positions: offsets (in the whole client stream) of fragment headers of the giant message
            pos = 0
            marks = []
            for m in c.msgs:
                ln = runs_len(m["b"])
                if ln > PM:
                    off = pos
                    left = ln
                    f = 0
                    while left > 0:
                        fl = min(left, PM + 4)
                        marks.append((off, f))
                        off += fl
                        left -= fl
                        f += 1
                pos += ln
            total = pos
            if variant == "cuts":
                for (off, f) in marks:
                    for k in (-1, 0, 1, 2, 3, 4, 5):
                        if 0 < off + k < total:
                            c.cuts.append(off + k)
            elif variant == "ones_in_headers":
                for (off, f) in marks:
                    for k in range(-2, 7):
                        if 0 < off + k < total:
                            c.cuts.append(off + k)
                c.cuts += [1, 2, 3, 4, 5]
            elif variant == "random":
                c.cuts = sorted(rng.randrange(1, total) for _ in range(40))
            out.append(c.build())
    return out


def gen_C01_big(rng, tier):
    return big_inbound(rng, tier, "C01")


def gen_C17_big(rng, tier):
    return [s for s in big_inbound(rng, tier, "C17") if s["shim"]["prepares"] and s["shim"]["prepares"][0]["id"] == le4(5)]


def gen_C20_big(rng, tier):
    """multi-packet requests whose fragment sequence ids are not consecutive"""
    out = []
    cases = [(0, [0, 2]), (0, [0, 0]), (5, [5, 4]), (255, [255, 1]), (254, [254, 255, 1]), (0, [0, 1, 3]), (7, [7, 200])]
    for i, (s0, seqs) in enumerate(cases):
        nfr = len(seqs)
        n = (nfr - 1) * PM + 10
        c = BigConv("C20-frag-%d" % i, mode="pipelined", meta={"seqs": seqs})
        sizes = [PM] * (nfr - 1) + [10]
        c.cmd_runs(canon([[3, 1]] + pattern_ascii(n - 1, i)), s0, sizes=sizes, seqs=seqs)
        c.programs.append([op_completed(0, 0)])
        c.small(com_ping())
        out.append(c.build())
    # and the legal wrap-around 255 -> 0 must be accepted
    c = BigConv("C20-frag-wrap", mode="pipelined")
    c.cmd_runs(canon([[3, 1]] + pattern_ascii(PM + 9, 3)), 255)
    c.programs.append([op_completed(0, 0)])
    c.small(com_ping())
    c.small(com_quit())
    out.append(c.build())
    return out


def gen_C05_big(rng, tier):
    out = []
    for i, s0 in enumerate([0, 100, 253, 254, 255]):
        c = BigConv("C05-big-%d" % s0, mode="lockstep")
        c.cmd_runs(canon([[3, 1]] + pattern_ascii(2 * PM + 5, i)), s0)
        c.programs.append([op_start([rcol("a")]), op_write_row([vbig(pattern(PM + 100, i))]), op_finish()])
        c.small(com_ping(), seq0=s0)
        c.small(com_quit())
        out.append(c.build())
    return out


def gen_C19_big(rng, tier):
    """end of stream at and around the fragment boundaries of a multi-packet command"""
    out = []
    n = 2 * PM + 9
    offs = [4 + PM + k for k in (-1, 0, 1, 2, 3, 4, 5)] + [2 * (4 + PM) + k for k in (-1, 0, 1, 4)] + [2 * (4 + PM) + 4 + 8]
    if tier == "quick":
        offs = [4 + PM - 1, 4 + PM, 4 + PM + 2, 4 + PM + 4, 2 * (4 + PM), 2 * (4 + PM) + 4, 2 * (4 + PM) + 4 + 8]
    for i, cut in enumerate(offs):
        c = BigConv("C19-bigeof-%d" % i, mode="pipelined", meta={"cut": cut})
        wire = frame_runs(canon([[3, 1]] + pattern_ascii(n - 1, i)), 0)
        c.msgs.append({"b": take(wire, cut), "reply": True})
        c.programs.append([op_completed(0, 0)])
        out.append(c.build())
    return out
