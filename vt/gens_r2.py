"""Generator additions made after the second round of independently seeded defects (DESIGN.md section 11).
Each function returns extra scenarios for one property; gens.py appends them."""
from .proto import *
from . import gens_big as GB


def rows_text(n, width=10):
    cols = [col("s", T_VAR_STRING)]
    ops = [op_start(cols)]
    for r in range(n):
        ops.append(op_write_row([v_bytes(bytes(48 + ((r + j) % 10) for j in range(width)), "str")]))
    ops.append(op_finish())
    return ops


def c01_extra(rng, tier):
    out = []
    # a read that fails with EINTR while a command is split across reads: whatever the server does with the
    # error, it must never hand the shim bytes the client did not send
    texts = [b"SELECT interrupted read test 0123456789", b"x" * 300]
    for i, t in enumerate(texts):
        wire_len = len(frame(handshake41(b"root"), 1))
        for at in range(2, 9):
            c = Conv("C01-eintr-%d-%d" % (i, at), mode="pipelined")
            c.query(t, [op_completed(1, 0)])
            c.query(b"after", [op_completed(2, 0)])
            c.quit()
            c.chunks, c.then = [wire_len, 2, 3, 1, 5, 2, 7, 100], 0
            c.fault = {"on": "read", "at": at, "kind": "oneoff", "err": "Interrupted"}
            out.append(c.build())
    # a lock-step client and payloads that are exact multiples of 2^24-1 (the message ends with an empty packet)
    for i, (a, d) in enumerate([(1, 0), (2, 0), (1, 1)] if tier == "quick" else [(1, 0), (2, 0), (3, 0), (1, 1), (1, -1)]):
        for variant in ("all", "cut_after"):
            n = a * GB.PM + d
            c = GB.BigConv("C01-lock-%d-%s" % (i, variant), mode="lockstep", meta={"a": a, "d": d})
            c.cmd_runs(GB.canon([[3, 1]] + GB.pattern_ascii(n - 1, i)), 0)
            c.programs.append([op_completed(1, 0)])
            c.small(com_query("after"))
            c.programs.append([op_completed(2, 0)])
            c.small(com_quit())
            if variant == "cut_after":
                pos = sum(GB.runs_len(m["b"]) for m in c.msgs[:2])
                c.cuts = [pos - 4, pos]
            out.append(c.build())
    return out


def c04_extra(rng, tier):
    out = []
    # the client's announced max_packet_size must not change how the SERVER fragments its messages
    for i, maxps in enumerate([0, 65536, 1 << 20, (1 << 24) - 1]):
        for binary in (False, True):
            c = GB.BigConv("C04-maxps-%d-%s" % (i, "b" if binary else "t"), mode="lockstep", meta={"maxps": maxps})
            c.msgs[0] = {"b": GB.lit(frame(handshake41(b"root", maxps=maxps), 1)), "reply": True}
            cells = [GB.pattern(3 * (1 << 20) + 17, i), GB.pattern(5, i + 1)]
            cols = [GB.rcol("a"), GB.rcol("b")]
            ops = [op_start(cols), op_write_row([GB.vbig(x) for x in cells]), op_write_row([GB.vbig(GB.pattern(7, 2)), GB.vbig(GB.pattern(9, 3))]), op_finish()]
            if binary:
                c.small(com_prepare("S"))
                c.prepares.append({"id": le4(1), "params": [], "cols": []})
                c.small(com_execute(1, []))
            else:
                c.small(com_query("Q"))
            c.programs.append(ops)
            c.small(com_ping())
            c.small(com_quit())
            out.append(c.build())
    # packets of several MiB (below the limit) followed by more output
    for i, n in enumerate([(1 << 20) + 5, 2 * (1 << 20), 5 * (1 << 20) + 3]):
        c = GB.BigConv("C04-mid-%d" % i, mode="lockstep")
        cols = [GB.rcol("a")]
        ops = [op_start(cols), op_write_row([GB.vbig(GB.pattern(n, i))]), op_write_row([GB.vbig(GB.pattern(11, 1))]),
               op_write_row([GB.vbig(GB.pattern(300, 2))]), op_finish()]
        c.small(com_query("Q"))
        c.programs.append(ops)
        c.small(com_query("Q2"))
        c.programs.append([op_start(cols), op_write_row([GB.vbig(GB.pattern(13, 5))]), op_finish()])
        c.small(com_ping())
        c.small(com_quit())
        out.append(c.build())
    return out


def c05_extra(rng, tier):
    out = []
    for i, n in enumerate([2 * GB.PM + 1000, 3 * GB.PM + 5] if tier != "quick" else [2 * GB.PM + 1000]):
        for s0 in (0, 250):
            c = GB.BigConv("C05-onewrite-%d-%d" % (i, s0), mode="lockstep")
            c.small(com_query("Q"), seq0=s0)
            c.programs.append([op_start([GB.rcol("a")]), op_write_col(GB.vbig(GB.pattern(n, i))), op_end_row(), op_finish()])
            c.small(com_ping(), seq0=s0)
            c.small(com_quit())
            out.append(c.build())
    return out


def c05_exact(rng, tier):
    out = []
    for i, k in enumerate([1, 2] if tier != "quick" else [1]):
        c = GB.BigConv("C05-exact-%d" % i, mode="lockstep")
        n = GB.cell_len_for_total(k * GB.PM)    # one text cell whose row message is exactly k*(2^24-1) bytes
        c.small(com_query("Q"), seq0=3)
        c.programs.append([op_start([GB.rcol("a")]), op_write_row([GB.vbig(GB.pattern(n, i))]), op_write_row([GB.vbig(GB.pattern(4, 1))]), op_finish()])
        c.small(com_ping())
        c.small(com_quit())
        out.append(c.build())
    return out


def c20_wedge(rng, tier):
    """out-of-order fragments with a client that WAITS for the answer (the server must answer or give up, not wait)"""
    out = []
    for i, (s0, seqs) in enumerate([(0, [0, 2]), (7, [7, 6]), (255, [255, 1])]):
        c = GB.BigConv("C20-wedge-%d" % i, mode="lockstep", meta={"seqs": seqs})
        c.cmd_runs(GB.canon([[3, 1]] + GB.pattern_ascii(GB.PM + 9, i)), s0, sizes=[GB.PM, 10], seqs=seqs)
        c.programs.append([op_completed(0, 0)])
        c.small(com_ping())
        out.append(c.build())
    return out


def big_value_scenarios(pid, binary):
    """a few giant cells through the connection (value fidelity for data of any length)"""
    out = []
    for i, total in enumerate([GB.PM + 84, 2 * GB.PM + 3]):
        c = GB.BigConv("%s-bigval-%d" % (pid, i), mode="lockstep")
        n = total - 9 - 6
        cells = [GB.pattern(5, i), GB.pattern(n, i + 1)]
        cols = [GB.rcol("a"), GB.rcol("b")]
        ops = [op_start(cols), op_write_row([GB.vbig(GB.pattern(3, 1)), GB.vbig(GB.pattern(4, 2))]),
               op_write_row([GB.vbig(x, "vec" if j else "bytes") for j, x in enumerate(cells)]),
               op_write_row([GB.vbig(GB.pattern(2, 3)), GB.vnull()]), op_finish()]
        if binary:
            c.small(com_prepare("S"))
            c.prepares.append({"id": le4(1), "params": [], "cols": []})
            c.small(com_execute(1, []))
        else:
            c.small(com_query("Q"))
        c.programs.append(ops)
        c.small(com_ping())
        c.small(com_quit())
        out.append(c.build())
    return out


def c06_extra(rng, tier):
    return big_value_scenarios("C06", False)


def c07_extra(rng, tier):
    from .gens import boundary_ints, col_range
    out = big_value_scenarios("C07", True)
    cases = []
    # byte strings at every length class boundary, in every string-family column type
    for n in [0, 1, 249, 250, 251, 252, 253, 255, 256, 65535, 65536]:
        data = bytes((j * 3 + n) % 256 for j in range(n))
        for ty in ([T_VAR_STRING, T_BLOB, T_JSON, T_VARCHAR] if n < 1000 else [T_BLOB]):
            for kind in ("bytes", "vec"):
                cases.append({"v": v_bytes(data, kind), "col": col("x", ty), "mode": "bin"})
            cases.append({"v": v_myc_bytes(data), "col": col("x", ty), "mode": "bin"})
    # generic and native integers at the range boundaries of every integer column (exact or refused)
    for ty in INT_TYPES:
        for fl in (0, F_UNSIGNED):
            lo, hi = col_range(ty, fl)
            for x in sorted({lo - 1, lo, lo + 1, -1, 0, 1, 127, 128, 255, 256, 32767, 32768, 65535, 65536, 2**31 - 1, 2**31, 2**32 - 1, 2**32, hi - 1, hi, hi + 1, -5}):
                if -2**63 <= x <= 2**63 - 1:
                    cases.append({"v": v_myc_int(x), "col": col("x", ty, fl), "mode": "bin"})
                    for k in ("i8", "i16", "i32", "i64", "isize"):
                        a, b_ = {"i8": (-128, 127), "i16": (-2**15, 2**15 - 1), "i32": (-2**31, 2**31 - 1)}.get(k, (-2**63, 2**63 - 1))
                        if a <= x <= b_:
                            cases.append({"v": v_int(k, x), "col": col("x", ty, fl), "mode": "bin"})
                if 0 <= x <= 2**64 - 1:
                    cases.append({"v": v_myc_uint(x), "col": col("x", ty, fl), "mode": "bin"})
    for i in range(0, len(cases), 600):
        out.append({"id": "C07-encx%03d" % (i // 600), "kind": "encode", "cases": cases[i:i + 600]})
    # the same string sizes inside rows (cells after the string must still decode)
    for i, n in enumerate([250, 251, 252, 65535, 65536]):
        c = Conv("C07-strrow%d" % i, mode="lockstep")
        cols = [col("s", T_VAR_STRING), col("n", T_LONG), col("b", T_BLOB, F_NOT_NULL)]
        c.prepare("S", prep_ok(1, [], cols))
        data = bytes((j * 5 + n) % 256 for j in range(n))
        c.execute(1, [], [op_start(cols), op_write_row([v_bytes(data, "bytes"), v_int("i32", -n), v_bytes(b"t", "vec")]),
                          op_write_row([v_none("str"), v_int("i32", 7), v_bytes(data, "vec")]), op_finish()])
        c.ping()
        c.quit()
        out.append(c.build())
    return out


def interleave_other(rng, c, j):
    """a command that is not part of the statement vocabulary, between statement operations"""
    r = rng.random()
    if r < 0.3:
        c.query("USE db%d" % j, [op_init_ok()])
    elif r < 0.5:
        c.init_db("schema%d" % j, [op_init_ok()])
    elif r < 0.7:
        c.ping()
    elif r < 0.85:
        c.query("SELECT %d" % j, [op_completed(j, 0)])
    else:
        c.cmd(com_field_list())


def c12_extra(rng, tier):
    out = []
    # replies of exactly 256*k packets (the sequence counter is back where it started) and neighbours
    for rows in ([250, 251, 252, 253, 508] if tier == "quick" else [250, 251, 252, 253, 254, 507, 508, 509, 764, 1020]):
        c = Conv("C12-wrap%d" % rows, mode="lockstep")
        c.query("Q", rows_text(rows, 3))
        c.ping()
        c.query("Q2", rows_text(2, 3))
        c.quit()
        out.append(c.build())
    # replies whose total size crosses a power of two exactly with their last packet
    # sizes: column count 5, definition 4+23+len(t)+len(n) = 29 (t="t", n="s"), EOF 9, row 4+1+width, EOF 9
    fixed = 5 + (4 + 22 + 1 + 1) + 9 + 9
    for B in ([4096, 8192, 16384, 65536] if tier == "quick" else [512, 1024, 2048, 4096, 8192, 16384, 32768, 65536, 131072]):
        for delta in (0, 4, 8):
            target = B + delta
            width = max(10, target // 250)      # keep the number of rows (and so of trace events) moderate
            rowlen = 4 + 1 + width
            n = (target - fixed) // rowlen
            rest = target - fixed - n * rowlen          # absorbed by one longer row
            cols = [col("s", T_VAR_STRING)]
            ops = [op_start(cols)]
            for r in range(n):
                w = width + (rest if r == 0 else 0)
                ops.append(op_write_row([v_bytes(bytes(48 + ((r + j) % 10) for j in range(w)), "str")]))
            ops.append(op_finish())
            c = Conv("C12-spill%d-%d" % (B, delta), mode="lockstep")
            c.query("Q", ops)
            c.ping()
            c.quit()
            out.append(c.build())
    # commands pipelined directly behind a command of several MiB
    for i, n in enumerate([(1 << 20) + 100, 3 * (1 << 20)]):
        c = GB.BigConv("C12-bigpipe-%d" % i, mode="pipelined")
        c.cmd_runs(GB.canon([[3, 1]] + GB.pattern_ascii(n, i)), 0)
        c.programs.append([op_completed(1, 0)])
        c.small(com_ping())
        c.small(com_query("behind"))
        c.programs.append([op_completed(2, 0)])
        c.small(com_ping())
        c.small(com_quit())
        out.append(c.build())
    return out


def c19_extra_convs(mk):
    """more archetypes for the fault enumeration (mk(name, fn, mode))"""
    mk("pipelined_drop", lambda c: c.query("A", [op_start([col("a", T_LONG)]), op_write_row([v_int("i32", 1)]), op_drop()])
       .query("B", [op_completed(1, 1)]).quit(), "pipelined")
    mk("pipelined_drop2", lambda c: c.query("A", [op_complete_one(1, 1)]).query("B", [op_start([col("a", T_LONG)]), op_write_col(v_int("i32", 1))])
       .ping().quit(), "pipelined")
