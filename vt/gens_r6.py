"""Generator additions made after the sixth round of independently seeded defects (DESIGN.md section 11)."""
import copy
from .proto import *
from . import gens_big as GB
from .gens_r3 import cont

LATIN1 = [5, 8, 15, 31, 47, 48, 49, 94]


def v_datetime_ns(y, m, d, h, mi, s, us, ns):
    """a chrono value with a sub-microsecond part: the client may see it truncated or rounded to microseconds"""
    import datetime
    base = datetime.datetime(max(y, 1), m, d, h, mi, s, us)
    alt = [y, m, d, h, mi, s, us]
    if ns >= 500:
        try:
            r = base + datetime.timedelta(microseconds=1)
            alt = [r.year if y else 0, r.month, r.day, r.hour, r.minute, r.second, r.microsecond]
        except OverflowError:
            pass
    return {"k": "datetime", "v": [y, m, d, h, mi, s, us, ns], "c": {"t": "dt", "v": [y, m, d, h, mi, s, us], "alt": alt}}


def datetime_ns_cases():
    cases = []
    dummy = col("x", T_VAR_STRING)
    for (h, mi, s) in [(0, 0, 0), (5, 6, 7), (23, 59, 59)]:
        for (us, ns) in [(0, 1), (0, 499), (0, 500), (0, 999), (999999, 1), (999999, 499), (999999, 600), (999999, 999), (7, 500), (123456, 789)]:
            for (y, m, d) in [(2021, 3, 4), (2020, 12, 31)]:
                v = v_datetime_ns(y, m, d, h, mi, s, us, ns)
                cases.append({"v": v, "col": dummy, "mode": "text"})
                cases.append({"v": v, "col": col("d", T_DATETIME), "mode": "bin"})
                cases.append({"v": v, "col": col("d", T_TIMESTAMP), "mode": "bin"})
    return cases


def v_bad_date():
    """a generic Value::Date that is no date: refused by every encoder"""
    return {"k": "myc", "t": "Date", "v": [2020, 13, 1, 0, 0, 0, 0], "c": {"t": "dt", "v": [2020, 13, 1, 0, 0, 0, 0]}, "bad": True}


def c06_extra(rng, tier):
    out = [{"id": "C06-dtns", "kind": "encode", "cases": [c for c in datetime_ns_cases() if c["mode"] == "text"]}]
    # write_row refused at a value that is no date (the only refusal the text protocol knows); the shim handles it,
    # completes the row by hand and goes on: nothing is lost, nothing is left over for the next row
    for i, pos in enumerate([1, 2, 0]):
        cols = [col("a", T_VAR_STRING), col("b", T_VAR_STRING), col("c", T_VAR_STRING)]
        vs = [v_bytes(b"1", "str"), v_bytes(b"one", "str"), v_bytes(b"I", "str")]
        vs[pos] = v_bad_date()
        ops = [op_start(cols), op_write_row([v_bytes(b"0", "str"), v_none("str"), v_bytes(b"", "str")]), cont(op_write_row(vs))]
        ops += [op_write_col(v_bytes(b"x%d" % j, "str")) for j in range(pos, 3)] + [op_end_row()]
        ops += [op_write_row([v_bytes(b"2", "str"), v_bytes(b"two", "str"), v_bytes(b"II", "str")]), op_finish()]
        c = Conv("C06-badrow-%d" % i, mode=["lockstep", "pipelined"][i % 2])
        c.query("Q", ops)
        c.query("next", [op_start(cols[:1]), op_write_row([v_bytes(b"after", "str")]), op_finish()])
        c.ping()
        c.quit()
        out.append(c.build())
    return out


def c07_extra(rng, tier):
    out = [{"id": "C07-dtns", "kind": "encode", "cases": [c for c in datetime_ns_cases() if c["mode"] == "bin"]}]
    # generic dates/datetimes against every temporal column type: refused, or arriving as exactly that value
    cases = []
    for ty in (T_DATE, T_DATETIME, T_TIMESTAMP):
        for (h, mi, s, us) in [(0, 0, 0, 0), (0, 0, 0, 1), (0, 0, 0, 999999), (0, 0, 1, 0), (12, 0, 0, 0), (23, 59, 59, 999999)]:
            cases.append({"v": v_myc_date(2020, 1, 2, h, mi, s, us), "col": col("d", ty), "mode": "bin"})
            cases.append({"v": v_datetime(2020, 1, 2, h, mi, s, us), "col": col("d", ty), "mode": "bin"})
        cases.append({"v": v_date(2020, 1, 2), "col": col("d", ty), "mode": "bin"})
    out.append({"id": "C07-temporal-cross", "kind": "encode", "cases": cases})
    # ... and inside rows: the cell after such a value must still decode
    cols = [col("d", T_DATETIME), col("n", T_LONG), col("t", T_TIMESTAMP), col("s", T_VAR_STRING)]
    c = Conv("C07-dtns-rows", mode="lockstep")
    c.prepare("S", prep_ok(1, [], cols))
    ops = [op_start(cols)]
    for (us, ns) in [(0, 1), (0, 999), (999999, 600), (5, 5)]:
        ops.append(op_write_row([v_datetime_ns(2021, 3, 4, 0, 0, 0, us, ns), v_int("i32", 7), v_datetime_ns(2021, 3, 4, 5, 6, 7, us, ns), v_bytes(b"tail", "str")]))
    ops.append(op_finish())
    c.execute(1, [], ops)
    c.ping()
    c.quit()
    out.append(c.build())
    return out


def lenenc_form(n, form):
    if form == "fc":
        return [0xfc, n & 255, (n >> 8) & 255]
    if form == "fd":
        return [0xfd, n & 255, (n >> 8) & 255, (n >> 16) & 255]
    if form == "fe":
        return [0xfe] + [(n >> (8 * k)) & 255 for k in range(8)]
    return lenenc_int(n)


def p_bytes_form(ty, data, form):
    """a string-family parameter whose length prefix is valid but not the shortest form"""
    return dict(ty=ty, uns=False, enc=lenenc_form(len(data), form) + list(data))


def execute_with_flags(stmt, params, uflags):
    """COM_STMT_EXECUTE whose type table carries the given second bytes (bit 0x80 = unsigned, other bits undefined)"""
    p = com_execute(stmt, params, True)
    n = len(params)
    base = 10 + (n + 7) // 8 + 1
    for k, f in enumerate(uflags):
        p[base + 2 * k + 1] = f
    return p


def c08_extra(rng, tier):
    out = []
    # length prefixes that are valid but not minimal (drivers that reserve the prefix before streaming a value)
    for i, form in enumerate(["fc", "fd", "fe"]):
        c = Conv("C08-prefix-%s" % form, mode="lockstep")
        ps = [p_bytes_form(T_VAR_STRING, b"abc", form), p_int(T_LONG, 0x01020304), p_bytes_form(T_BLOB, b"", form), p_bytes_form(T_BLOB, bytes(range(200)), form),
              p_bytes(T_VAR_STRING, b"plain")]
        c.prepare("S", prep_ok(1, [col("p%d" % k, p["ty"]) for k, p in enumerate(ps)], []))
        c.execute(1, ps, [op_completed(1, 0)])
        c.execute(1, list(reversed(ps)) if False else ps, [op_completed(2, 0)], rebind=False)
        c.ping()
        c.quit()
        out.append(c.build())
    # the unsigned bit of the type table with other (undefined) bits around it
    for i, f in enumerate([0x80, 0x81, 0xc0, 0xff, 0x00, 0x01, 0x40, 0x7f]):
        uns = f >= 0x80
        c = Conv("C08-uflag-%02x" % f, mode="lockstep")
        ps = [p_int(T_TINY, 200 if uns else -56, uns), p_int(T_LONGLONG, 2 ** 64 - 1 if uns else -1, uns), p_int(T_LONG, 3000000000 if uns else -5, uns), p_int(T_SHORT, 65535 if uns else -2, uns)]
        c.prepare("S", prep_ok(1, [col("p%d" % k, p["ty"], F_UNSIGNED if uns else 0) for k, p in enumerate(ps)], []))
        c.cmd(execute_with_flags(1, ps, [f] * len(ps)))
        c.programs.append([op_completed(1, 0)])
        c.execute(1, ps, [op_completed(2, 0)], rebind=False)
        c.ping()
        c.quit()
        out.append(c.build())
    return out


def c02_extra(rng, tier):
    out = []
    # the character set a client announces in its handshake does not change what the shim is handed:
    # valid UTF-8 verbatim, anything else never
    for i, coll in enumerate(LATIN1 + [0, 33, 45, 63, 255]):
        for last in (b"caf\xe9", None):
            c = Conv("C02-coll-%d-%d" % (coll, 0 if last else 1), mode=["lockstep", "pipelined"][i % 2], hs=handshake41(b"u", collation=coll))
            c.query("SELECT 'd\xc3\xa9j\xc3\xa0 \xe2\x82\xac'".encode("latin1"), [op_completed(1, 0)])
            c.prepare("SELECT '\xc3\xbc' = ?".encode("latin1"), prep_ok(1, [col("p", T_LONG)], []))
            c.init_db("sch\xc3\xa9ma".encode("latin1"), [op_init_ok()])
            c.query("USE `d\xc3\xa9`".encode("latin1"), [op_init_ok()])
            c.ping()
            if last:
                c.query(b"SELECT '" + last + b"'", None)       # not UTF-8: never handed to the shim
            else:
                c.quit()
            out.append(c.build())
    # commands that carry more bytes than their fixed part: still the same commands
    c = Conv("C02-overlong", mode="lockstep")
    c.prepare("S", prep_ok(5, [], []))
    c.cmd(com_ping() + [0, 1, 2], reply=True)
    c.cmd(com_close(5) + [9, 9], reply=False)
    c.prepare("T", prep_ok(6, [], []))
    c.cmd(com_close(6) + [0], reply=False)
    c.ping()
    c.cmd(com_quit() + [7], reply=False)
    out.append(c.build())
    # schema names ending in NUL (and other control bytes): verbatim
    c = Conv("C02-initdb-nul", mode="pipelined")
    for nm in [b"db\x00", b"\x00", b"a\x00b", b"db\n", b"db\x00\x00"]:
        c.init_db(nm, [op_init_ok()])
    c.ping()
    c.quit()
    out.append(c.build())
    return out


def c10_extra(rng, tier):
    out = []
    # statement ids around every power of two and the usual table sizes
    ids = [0, 1, 2, 255, 256, 1023, 1024, 1025, 4095, 4096, 65535, 65536, 2 ** 24, 2 ** 31, 2 ** 32 - 2]
    for i in range(0, len(ids), 5):
        c = Conv("C10-ids-%d" % i, mode="lockstep")
        for sid in ids[i:i + 5]:
            c.prepare("S%d" % sid, prep_ok(sid, [col("p", T_BLOB)], []))
        for sid in ids[i:i + 5]:
            c.cmd(com_long_data(sid, 0, b"ld"))
            c.execute(sid, [p_long(T_BLOB)], [op_completed(1, 0)])
            c.execute(sid, [p_bytes(T_BLOB, b"x")], [op_completed(2, 0)], rebind=False)
        for sid in ids[i:i + 5]:
            c.cmd(com_close(sid))
        c.ping()
        c.quit()
        out.append(c.build())
    # COM_STMT_CLOSE with bytes behind the id is still a close of that id; a ping / quit with a payload still a ping / quit
    c = Conv("C10-overlong-close", mode="lockstep")
    c.prepare("S", prep_ok(5, [col("p", T_LONG)], []))
    c.execute(5, [p_int(T_LONG, 1)], [op_completed(1, 0)])
    c.cmd(com_close(5) + [1, 2, 3], reply=False)
    c.cmd(com_ping() + [0], reply=True)
    c.cmd(com_execute(5, [p_int(T_LONG, 2)]))      # closed: ends the connection
    out.append(c.build())
    return out


def c18_extra(rng, tier):
    from .gens import tls_conv
    out = []
    # an SSL request that carries more than the 32 fixed bytes (the rest of a full handshake response, padding)
    for i, extra in enumerate([b"tlsuser\x00\x00", b"\x00" * 8, b"x" * 100]):
        for k, cuts in enumerate([[], [36 + len(extra)], [20]]):
            c = tls_conv("C18-longreq-%d-%d" % (i, k), rng, ncmd=1)
            c.msgs[0] = {"b": list(frame(ssl_request() + list(extra), 1)), "reply": False}
            sc = c.build()
            sc["transport"]["cuts"] = cuts
            sc["transport"]["chunks"] = []
            sc["transport"]["then"] = 0
            out.append(sc)
    return out


def c19_extra(rng, tier, probe):
    out = []
    # a transport that stops accepting bytes without reporting an error (write returns Ok(0))
    c = Conv("C19-zero", mode="lockstep")
    c.query("Q", [op_start([col("a", T_LONG)]), op_write_row([v_int("i32", 1)]), op_write_row([v_int("i32", 2)]), op_finish()])
    c.ping()
    c.quit()
    base = c.build()
    n = probe([base])[base["id"]]
    for k in range(n["wr"]):
        s2 = copy.deepcopy(base)
        s2["id"] = "C19-zero-w%d" % k
        s2["transport"]["fault"] = {"on": "write", "at": k, "kind": "persistent", "err": "WriteZero"}
        out.append(s2)
    return out


def c11_extra(rng, tier):
    """connections served one after the other by the same thread: whatever happened to the previous one, the next
    starts with a clean greeting"""
    out = []
    for i in range(3):
        a = Conv("C11-after-%d-a" % i, mode="lockstep")
        cols = [col("x", T_VAR_STRING), col("y", T_VAR_STRING)]
        if i == 0:
            a.query("Q", [op_start(cols), op_write_row([v_bytes(b"r", "str"), v_bytes(b"s", "str")]), op_write_col(v_bytes(b"half a row", "str")), op_return_err(77)])
        elif i == 1:
            a.query("Q", [op_start(cols), op_write_row([v_bytes(b"r" * 50, "str"), v_bytes(b"s", "str")]), op_finish()])
            a.fault = {"on": "write", "at": 4, "kind": "persistent", "err": "BrokenPipe"}
        else:
            a.query("Q", [op_complete_one(1, 1), op_start(cols), op_write_col(v_bytes(b"z", "str")), op_return_err(78)])
        out.append(a.build())
        b_ = Conv("C11-after-%d-b" % i, mode="lockstep", meta={"after": "C11-after-%d-a" % i})
        b_.ping()
        b_.query("Q", [op_completed(1, 0)])
        b_.quit()
        out.append(b_.build())
    return out
