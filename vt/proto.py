"""Client-side protocol encoders and abstract value / program descriptors used by the scenario
generators.  Everything here is written from the MySQL protocol description, not from msql-srv."""
import struct

PMAX = (1 << 24) - 1

# ---- column type codes -------------------------------------------------------------------------
T_DECIMAL, T_TINY, T_SHORT, T_LONG, T_FLOAT, T_DOUBLE, T_NULL, T_TIMESTAMP, T_LONGLONG, T_INT24 = range(10)
T_DATE, T_TIME, T_DATETIME, T_YEAR, T_NEWDATE, T_VARCHAR, T_BIT = 10, 11, 12, 13, 14, 15, 16
T_JSON, T_NEWDECIMAL, T_ENUM, T_SET, T_TINY_BLOB, T_MEDIUM_BLOB, T_LONG_BLOB, T_BLOB = 245, 246, 247, 248, 249, 250, 251, 252
T_VAR_STRING, T_STRING, T_GEOMETRY = 253, 254, 255
INT_TYPES = [T_TINY, T_SHORT, T_YEAR, T_INT24, T_LONG, T_LONGLONG]
STR_TYPES = [T_DECIMAL, T_VARCHAR, T_BIT, T_JSON, T_NEWDECIMAL, T_ENUM, T_SET, T_TINY_BLOB, T_MEDIUM_BLOB,
             T_LONG_BLOB, T_BLOB, T_VAR_STRING, T_STRING, T_GEOMETRY]
F_NOT_NULL, F_UNSIGNED = 1, 32
INT_WIDTH = {T_TINY: 1, T_SHORT: 2, T_YEAR: 2, T_INT24: 4, T_LONG: 4, T_LONGLONG: 8}


def b(x):
    """bytes-like -> list of ints"""
    if isinstance(x, str):
        x = x.encode()
    return list(x)


def le8(x):
    return list((x & ((1 << 64) - 1)).to_bytes(8, 'little'))


def le4(x):
    return list((x & 0xffffffff).to_bytes(4, 'little'))


# ---- framing ------------------------------------------------------------------------------------
def hdr(n, seq):
    return [n & 255, (n >> 8) & 255, (n >> 16) & 255, seq & 255]


def frame(payload, seq0=0, pmax=PMAX):
    """Conformant framing of one logical message."""
    out = []
    seq = seq0
    p = list(payload)
    while len(p) >= pmax:
        out += hdr(pmax, seq) + p[:pmax]
        p = p[pmax:]
        seq = (seq + 1) % 256
    out += hdr(len(p), seq) + p
    return out


def frame_raw(parts):
    """Arbitrary (possibly illegal) framing: parts = [(payload_bytes, seq, declared_len or None)]"""
    out = []
    for p in parts:
        payload, seq = p[0], p[1]
        n = p[2] if len(p) > 2 and p[2] is not None else len(payload)
        out += hdr(n, seq) + list(payload)
    return out


def lenenc_int(x):
    if x < 251:
        return [x]
    if x < 1 << 16:
        return [0xfc] + list(x.to_bytes(2, 'little'))
    if x < 1 << 24:
        return [0xfd] + list(x.to_bytes(3, 'little'))
    return [0xfe] + list(x.to_bytes(8, 'little'))


def lenenc_str(s):
    return lenenc_int(len(s)) + list(s)


# ---- client messages ---------------------------------------------------------------------------
CAP_LONG_PASSWORD, CAP_PROTOCOL_41, CAP_SSL, CAP_SECURE, CAP_CONNECT_DB, CAP_PLUGIN_AUTH = 1, 512, 2048, 0x8000, 8, 1 << 19


def handshake41(user=b"root", caps=0xa200, tail=(0,), maxps=1 << 24, collation=0x21, filler=None):
    filler = list(filler) if filler is not None else [0] * 23
    assert len(filler) == 23
    return le4(caps) + le4(maxps) + [collation] + filler + b(user) + [0] + list(tail)


def ssl_request(caps=0xa200 | CAP_SSL, maxps=1 << 24, collation=0x21):
    return le4(caps) + le4(maxps) + [collation] + [0] * 23


def handshake320(user=b"root", caps=0x0005, maxps=0xffffff, tail=()):
    return [caps & 255, (caps >> 8) & 255] + list(maxps.to_bytes(3, 'little')) + b(user) + [0] + list(tail)


def com_query(text):
    return [3] + b(text)


def com_prepare(text):
    return [0x16] + b(text)


def com_init_db(name):
    return [2] + b(name)


def com_field_list(table=b"t", wildcard=b""):
    return [4] + b(table) + [0] + b(wildcard)


def com_ping():
    return [0x0e]


def com_quit():
    return [1]


def com_close(stmt):
    return [0x19] + le4(stmt)


def com_long_data(stmt, param, data):
    return [0x18] + le4(stmt) + [param & 255, (param >> 8) & 255] + b(data)


def com_execute(stmt, params=None, rebind=True, flags=0, iterations=1, types_override=None):
    """params: list of param descriptors from p_*(): dict(ty, uns, null, enc, long).
    rebind=False sends new-params-bound = 0 (types omitted)."""
    out = [0x17] + le4(stmt) + [flags] + le4(iterations)
    params = params or []
    n = len(params)
    if n == 0:
        return out
    bitmap = [0] * ((n + 7) // 8)
    for i, p in enumerate(params):
        if p.get('null'):
            bitmap[i // 8] |= 1 << (i % 8)
    out += bitmap
    out.append(1 if rebind else 0)
    if rebind:
        for p in params:
            out += [p['ty'], 0x80 if p.get('uns') else 0]
    for p in params:
        if p.get('null') or p.get('long'):
            continue
        out += p['enc']
    return out


# parameter descriptors (client side)
def p_int(ty, value, uns=False):
    w = INT_WIDTH[ty]
    return dict(ty=ty, uns=uns, enc=list((value & ((1 << (8 * w)) - 1)).to_bytes(w, 'little')))


def p_f32(bits):
    return dict(ty=T_FLOAT, uns=False, enc=le4(bits))


def p_f64(bits):
    return dict(ty=T_DOUBLE, uns=False, enc=le8(bits))


def p_bytes(ty, data):
    return dict(ty=ty, uns=False, enc=lenenc_str(b(data)))


def p_null(ty, uns=False):
    return dict(ty=ty, uns=uns, null=True, enc=[])


def p_long(ty=T_BLOB):
    """parameter supplied through COM_STMT_SEND_LONG_DATA (no inline bytes)"""
    return dict(ty=ty, uns=False, long=True, enc=[])


def p_date(ty, y, m, d, h=0, mi=0, s=0, us=0, form=None):
    """DATE/DATETIME/TIMESTAMP in length form 0/4/7/11 (default: shortest exact)"""
    if form is None:
        form = 11 if us else 7 if (h or mi or s) else 4 if (y or m or d) else 0
    enc = [form]
    if form >= 4:
        enc += [y & 255, y >> 8, m, d]
    if form >= 7:
        enc += [h, mi, s]
    if form >= 11:
        enc += le4(us)
    return dict(ty=ty, uns=False, enc=enc)


def p_time(days, h, mi, s, us=0, neg=0, form=None):
    if form is None:
        form = 12 if us else 8 if (days or h or mi or s) else 0
    enc = [form]
    if form >= 8:
        enc += [neg] + le4(days) + [h, mi, s]
    if form >= 12:
        enc += le4(us)
    return dict(ty=T_TIME, uns=False, enc=enc)


# ---- abstract values written by the shim -------------------------------------------------------
INT_KINDS = {'i8': (8, True), 'u8': (8, False), 'i16': (16, True), 'u16': (16, False), 'i32': (32, True),
             'u32': (32, False), 'i64': (64, True), 'u64': (64, False), 'isize': (64, True), 'usize': (64, False)}


def v_int(kind, value):
    bits, signed = INT_KINDS[kind]
    return {"k": kind, "le": le8(value), "c": {"t": "int", "le": le8(value), "s": signed}}


def f32_bits(x):
    return struct.unpack('<I', struct.pack('<f', x))[0]


def f64_bits(x):
    return struct.unpack('<Q', struct.pack('<d', x))[0]


def v_f32(bits):
    return {"k": "f32", "le": le4(bits), "c": {"t": "f32", "le": le4(bits)}}


def v_f64(bits):
    return {"k": "f64", "le": le8(bits), "c": {"t": "f64", "le": le8(bits)}}


def v_bytes(data, kind="bytes"):
    """kind: bytes | vec | str | string (the latter two need valid UTF-8)"""
    return {"k": kind, "b": b(data), "c": {"t": "bytes", "b": b(data)}}


def v_date(y, m, d):
    return {"k": "date", "v": [y, m, d], "c": {"t": "date", "v": [y, m, d]}}


def v_datetime(y, m, d, h, mi, s, us=0):
    return {"k": "datetime", "v": [y, m, d, h, mi, s, us], "c": {"t": "dt", "v": [y, m, d, h, mi, s, us]}}


def v_dur(secs, us=0):
    return {"k": "dur", "v": [secs, us], "c": {"t": "time", "v": [secs, us]}}


def v_none(of="u8"):
    return {"k": "none", "of": of, "c": {"t": "null"}}


def v_some(v):
    return {"k": "some", "v": v, "c": v["c"]}


def v_ref(v):
    return {"k": "ref", "v": v, "c": v["c"]}


def v_myc_null():
    return {"k": "myc", "t": "NULL", "c": {"t": "null"}}


def v_myc_bytes(data):
    return {"k": "myc", "t": "Bytes", "b": b(data), "c": {"t": "bytes", "b": b(data)}}


def v_myc_int(x):
    return {"k": "myc", "t": "Int", "le": le8(x), "c": {"t": "int", "le": le8(x), "s": True}}


def v_myc_uint(x):
    return {"k": "myc", "t": "UInt", "le": le8(x), "c": {"t": "int", "le": le8(x), "s": False}}


def v_myc_float(bits):
    return {"k": "myc", "t": "Float", "le": le4(bits), "c": {"t": "f32", "le": le4(bits)}}


def v_myc_double(bits):
    return {"k": "myc", "t": "Double", "le": le8(bits), "c": {"t": "f64", "le": le8(bits)}}


def v_myc_date(y, m, d, h=0, mi=0, s=0, us=0):
    return {"k": "myc", "t": "Date", "v": [y, m, d, h, mi, s, us], "c": {"t": "dt", "v": [y, m, d, h, mi, s, us]}}


def v_myc_time(days, h, mi, s, us=0):
    return {"k": "myc", "t": "Time", "v": [0, days, h, mi, s, us],
            "c": {"t": "time", "v": [days * 86400 + h * 3600 + mi * 60 + s, us]}}


def col(name, ty, fl=0, table=b"t"):
    return {"t": b(table), "n": b(name), "ty": ty, "fl": fl}


# ---- writer programs ---------------------------------------------------------------------------
def op_start(cols):
    return {"op": "start", "cols": cols}


def op_write_col(v):
    return {"op": "write_col", "v": v}


def op_end_row():
    return {"op": "end_row"}


def op_write_row(vs):
    return {"op": "write_row", "vs": vs}


def op_finish():
    return {"op": "finish"}


def op_finish_one():
    return {"op": "finish_one"}


def op_finish_error(kind, msg=b"boom"):
    return {"op": "finish_error", "kind": kind, "msg": b(msg)}


def op_complete_one(rows, lid):
    return {"op": "complete_one", "rows": le8(rows), "id": le8(lid)}


def op_completed(rows, lid):
    return {"op": "completed", "rows": le8(rows), "id": le8(lid)}


def op_error(kind, msg=b"boom"):
    return {"op": "error", "kind": kind, "msg": b(msg)}


def op_no_more_results():
    return {"op": "no_more_results"}


def op_drop():
    return {"op": "drop"}


def op_return_err(token=7):
    return {"op": "return_err", "token": token}


def op_init_ok():
    return {"op": "init_ok"}


def op_init_err(kind, msg=b"nope"):
    return {"op": "init_err", "kind": kind, "msg": b(msg)}


def prep_ok(stmt, params, cols):
    return {"id": le4(stmt), "params": params, "cols": cols}


def prep_err(kind, msg=b"bad"):
    return {"err": {"kind": kind, "msg": b(msg)}}


# ---- scenarios ---------------------------------------------------------------------------------
NOREPLY = (1, 0x18, 0x19)


class Conv:
    """Builds one connection scenario: a conversation of client messages plus the shim's script."""

    def __init__(self, sid, mode="lockstep", user=b"root", hs=None, hs_seq=1, auth="accept", shim="program",
                 tls=False, meta=None):
        self.sid = sid
        self.mode = mode
        self.msgs = []
        self.programs = []
        self.prepares = []
        self.auth = auth
        self.shim = shim
        self.tls = tls
        self.client_tls = False
        self.client_cert = False
        self.alpn_bytes = 0
        self.server_client_cert = False
        self.meta = meta or {}
        self.chunks = []
        self.then = 0
        self.short_writes = []
        self.fault = None
        self.budget = None
        self.enc = "flat"
        if hs is not False:
            self.raw(frame(hs if hs is not None else handshake41(user), hs_seq), True)

    def raw(self, wire, reply=True):
        self.msgs.append({"b": list(wire), "reply": bool(reply)})
        return self

    def cmd(self, payload, seq0=0, reply=None):
        if reply is None:
            reply = not (len(payload) > 0 and payload[0] in NOREPLY)
        return self.raw(frame(payload, seq0), reply)

    def query(self, text, prog=None, seq0=0):
        self.cmd(com_query(text), seq0)
        if prog is not None:
            self.programs.append(prog)
        return self

    def prepare(self, text, spec, seq0=0):
        self.cmd(com_prepare(text), seq0)
        self.prepares.append(spec)
        return self

    def execute(self, stmt, params=None, prog=None, rebind=True, seq0=0):
        self.cmd(com_execute(stmt, params, rebind), seq0)
        if prog is not None:
            self.programs.append(prog)
        return self

    def init_db(self, name, prog=None, seq0=0):
        self.cmd(com_init_db(name), seq0)
        if prog is not None:
            self.programs.append(prog)
        return self

    def ping(self, seq0=0):
        return self.cmd(com_ping(), seq0)

    def quit(self, seq0=0):
        return self.cmd(com_quit(), seq0)

    def build(self):
        # TLC's cost per event is linear in the buffered bytes: keep fine-grained chunkings to
        # small streams (large streams still get header cuts etc. through explicit schedules)
        total = sum(len(m["b"]) for m in self.msgs)
        if total > 3000 and self.enc == "flat":
            k = 200 if total < 100000 else 2000
            self.chunks = [x if (x == 0 or x >= k) else x * k for x in self.chunks][:200]
            if 0 < self.then < k:
                self.then = self.then * k
        sc = {"id": self.sid, "kind": "conn", "enc": self.enc,
              "shim": {"kind": self.shim, "auth": self.auth, "tls": self.tls, "client_cert": self.server_client_cert,
                       "programs": self.programs, "prepares": self.prepares},
              "client": {"mode": self.mode, "msgs": self.msgs, "tls": self.client_tls, "cert": self.client_cert,
                         "tls_from": 1, "alpn_bytes": self.alpn_bytes},
              "transport": {"chunks": self.chunks, "then": self.then}}
        if self.short_writes:
            sc["transport"]["short_writes"] = self.short_writes
        if self.fault:
            sc["transport"]["fault"] = self.fault
        if self.budget:
            sc["transport"]["budget"] = self.budget
        if self.meta:
            sc["meta"] = self.meta
        return sc
