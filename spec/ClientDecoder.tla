--------------------------- MODULE ClientDecoder ---------------------------
(***************************************************************************)
(* A spec-conformant client's view of server output, written from the      *)
(* protocol description (independently of the server's writers): logical   *)
(* messages -> response units.                                             *)
(*   unit = [k |-> "ok", rows, id, status, warn]                           *)
(*        | [k |-> "err", code, state, msg]                                *)
(*        | [k |-> "rs", cols, rows, term, status, err]                    *)
(*   (rows are raw row payloads; values are decoded by Codec against the   *)
(*   decoded column definitions, exactly as a client would)                *)
(***************************************************************************)
EXTENDS Bytes, TLC

MORE == 8   \* SERVER_MORE_RESULTS_EXISTS
HasMore(status) == (status \div MORE) % 2 = 1

NoErr == [k |-> "err", code |-> 0, state |-> << >>, msg |-> << >>]
DBad(why) == [ok |-> FALSE, why |-> why]

IsOkPkt(p) == Len(p) >= 7 /\ p[1] = 0
IsErrPkt(p) == Len(p) >= 1 /\ p[1] = 255
IsEofPkt(p) == Len(p) >= 1 /\ p[1] = 254 /\ Len(p) < 9

DecOk(p) ==
  IF ~IsOkPkt(p) THEN DBad("not an OK packet")
  ELSE LET a == LenencAt(p, 2) IN
    IF ~a.ok \/ a.null THEN DBad("OK: affected rows")
    ELSE LET b == LenencAt(p, a.next) IN
      IF ~b.ok \/ b.null THEN DBad("OK: last insert id")
      ELSE IF b.next + 3 > Len(p) THEN DBad("OK: truncated")
      ELSE [ok |-> TRUE, u |-> [k |-> "ok", rows |-> a.v, id |-> b.v,
                                status |-> Le16(p, b.next), warn |-> Le16(p, b.next + 2)],
            exact |-> Len(p) = b.next + 3]

DecErr(p) ==
  IF ~IsErrPkt(p) THEN DBad("not an ERR packet")
  ELSE IF Len(p) < 9 THEN DBad("ERR: truncated")
  ELSE IF p[4] # 35 THEN DBad("ERR: sqlstate marker missing")
  ELSE [ok |-> TRUE, u |-> [k |-> "err", code |-> Le16(p, 2), state |-> Sub(p, 5, 5), msg |-> From(p, 10)]]

DecEof(p) ==
  IF ~IsEofPkt(p) THEN DBad("not an EOF packet")
  ELSE IF Len(p) # 5 THEN DBad("EOF: wrong length")
  ELSE [ok |-> TRUE, warn |-> Le16(p, 2), status |-> Le16(p, 4)]

\* ColumnDefinition41 (fieldlist: COM_FIELD_LIST variant with a trailing default value)
DecColDef(p, fieldlist) ==
  LET s1 == LenencStrAt(p, 1) IN IF ~s1.ok \/ s1.null THEN DBad("coldef: catalog") ELSE
  LET s2 == LenencStrAt(p, s1.next) IN IF ~s2.ok \/ s2.null THEN DBad("coldef: schema") ELSE
  LET s3 == LenencStrAt(p, s2.next) IN IF ~s3.ok \/ s3.null THEN DBad("coldef: table") ELSE
  LET s4 == LenencStrAt(p, s3.next) IN IF ~s4.ok \/ s4.null THEN DBad("coldef: org_table") ELSE
  LET s5 == LenencStrAt(p, s4.next) IN IF ~s5.ok \/ s5.null THEN DBad("coldef: name") ELSE
  LET s6 == LenencStrAt(p, s5.next) IN IF ~s6.ok \/ s6.null THEN DBad("coldef: org_name") ELSE
  LET f == s6.next IN
  IF f + 12 > Len(p) THEN DBad("coldef: fixed fields truncated")
  ELSE IF p[f] # 12 THEN DBad("coldef: fixed-length marker")
  ELSE IF s1.b # <<100, 101, 102>> THEN DBad("coldef: catalog is not def")
  ELSE LET tailok == IF fieldlist
                     THEN LET d == LenencStrAt(p, f + 13) IN d.ok /\ d.next = Len(p) + 1
                     ELSE Len(p) = f + 12
       IN IF ~tailok THEN DBad("coldef: trailing bytes")
          ELSE [ok |-> TRUE, c |-> [table |-> s3.b, name |-> s5.b, ty |-> p[f + 7], fl |-> Le16(p, f + 8),
                                    charset |-> Le16(p, f + 1), decimals |-> p[f + 10]]]

RECURSIVE DecColDefs(_, _, _, _, _)
\* n column definitions starting at message i
DecColDefs(M, i, n, fieldlist, acc) ==
  IF n = 0 THEN [ok |-> TRUE, cols |-> acc, next |-> i]
  ELSE IF i > Len(M) THEN DBad("column definitions missing")
  ELSE LET d == DecColDef(M[i].p, fieldlist) IN
       IF ~d.ok THEN d ELSE DecColDefs(M, i + 1, n - 1, fieldlist, Append(acc, d.c))

RECURSIVE DecRows(_, _, _)
DecRows(M, i, acc) ==
  IF i > Len(M) THEN DBad("resultset not terminated")
  ELSE LET p == M[i].p IN
    IF IsEofPkt(p) THEN
       LET e == DecEof(p) IN
       IF ~e.ok THEN e ELSE [ok |-> TRUE, rows |-> acc, term |-> "eof", status |-> e.status, err |-> NoErr, next |-> i + 1]
    ELSE IF IsErrPkt(p) THEN
       LET e == DecErr(p) IN
       IF ~e.ok THEN e ELSE [ok |-> TRUE, rows |-> acc, term |-> "err", status |-> 0, err |-> e.u, next |-> i + 1]
    ELSE DecRows(M, i + 1, Append(acc, p))

\* one response unit starting at message i: [ok, u, more, next]
DecUnit(M, i) ==
  IF i > Len(M) THEN DBad("response missing")
  ELSE LET p == M[i].p IN
    IF Len(p) = 0 THEN DBad("empty packet")
    ELSE IF p[1] = 0 THEN
      LET o == DecOk(p) IN IF ~o.ok THEN o ELSE [ok |-> TRUE, u |-> o.u, more |-> HasMore(o.u.status), next |-> i + 1]
    ELSE IF p[1] = 255 THEN
      LET e == DecErr(p) IN IF ~e.ok THEN e ELSE [ok |-> TRUE, u |-> e.u, more |-> FALSE, next |-> i + 1]
    ELSE IF p[1] = 251 THEN DBad("LOCAL INFILE request")
    ELSE
      LET c == LenencAt(p, 1) IN
      IF ~c.ok \/ c.next # Len(p) + 1 \/ ~U64Small(c.v) THEN DBad("column count packet")
      ELSE LET n == U64Int(c.v)
               d == DecColDefs(M, i + 1, n, FALSE, << >>) IN
        IF ~d.ok THEN d
        ELSE IF d.next > Len(M) THEN DBad("EOF after column definitions missing")
        ELSE LET e == DecEof(M[d.next].p) IN
          IF ~e.ok THEN DBad("EOF after column definitions malformed")
          ELSE IF HasMore(e.status) THEN DBad("MORE flag on the metadata EOF")
          ELSE LET r == DecRows(M, d.next + 1, << >>) IN
            IF ~r.ok THEN r
            ELSE [ok |-> TRUE,
                  u |-> [k |-> "rs", cols |-> d.cols, rows |-> r.rows, term |-> r.term, status |-> r.status, err |-> r.err],
                  more |-> r.term = "eof" /\ HasMore(r.status), next |-> r.next]

RECURSIVE DecChain(_, _, _)
\* a complete response: units chained by the MORE flag.  [ok, units, next]
DecChain(M, i, units) ==
  LET d == DecUnit(M, i) IN
  IF ~d.ok THEN [ok |-> FALSE, why |-> d.why, units |-> units, next |-> i]
  ELSE IF d.more THEN DecChain(M, d.next, Append(units, d.u))
  ELSE [ok |-> TRUE, units |-> Append(units, d.u), next |-> d.next, why |-> ""]
DecResponse(M, i) == DecChain(M, i, << >>)

\* COM_STMT_PREPARE response: [ok, id, params, cols, next] or an ERR unit
DecPrepare(M, i) ==
  IF i > Len(M) THEN DBad("response missing")
  ELSE LET p == M[i].p IN
    IF IsErrPkt(p) THEN
      LET e == DecErr(p) IN IF ~e.ok THEN e ELSE [ok |-> TRUE, iserr |-> TRUE, err |-> e.u, next |-> i + 1]
    ELSE IF Len(p) # 12 \/ p[1] # 0 THEN DBad("prepare-OK packet")
    ELSE LET nc == Le16(p, 6)
             np == Le16(p, 8)
             dp == DecColDefs(M, i + 1, np, FALSE, << >>) IN
      IF ~dp.ok THEN dp
      ELSE LET afterp == IF np = 0 THEN [ok |-> TRUE, next |-> dp.next]
                         ELSE IF dp.next > Len(M) \/ ~DecEof(M[dp.next].p).ok THEN DBad("EOF after parameter definitions")
                         ELSE [ok |-> TRUE, next |-> dp.next + 1] IN
        IF ~afterp.ok THEN afterp
        ELSE LET dc == DecColDefs(M, afterp.next, nc, FALSE, << >>) IN
          IF ~dc.ok THEN dc
          ELSE LET afterc == IF nc = 0 THEN [ok |-> TRUE, next |-> dc.next]
                             ELSE IF dc.next > Len(M) \/ ~DecEof(M[dc.next].p).ok THEN DBad("EOF after column definitions")
                             ELSE [ok |-> TRUE, next |-> dc.next + 1] IN
            IF ~afterc.ok THEN afterc
            ELSE [ok |-> TRUE, iserr |-> FALSE, id |-> Sub(p, 2, 4), params |-> dp.cols, cols |-> dc.cols,
                  warn |-> Le16(p, 11), next |-> afterc.next]

RECURSIVE DecFieldDefs(_, _, _)
DecFieldDefs(M, i, acc) ==
  IF i > Len(M) THEN DBad("field list not terminated")
  ELSE LET p == M[i].p IN
    IF IsEofPkt(p) THEN (IF DecEof(p).ok THEN [ok |-> TRUE, cols |-> acc, next |-> i + 1] ELSE DBad("field list EOF"))
    ELSE IF IsErrPkt(p) THEN (IF DecErr(p).ok /\ acc = << >> THEN [ok |-> TRUE, cols |-> acc, next |-> i + 1] ELSE DBad("field list ERR"))
    ELSE LET d == DecColDef(p, TRUE) IN IF ~d.ok THEN d ELSE DecFieldDefs(M, i + 1, Append(acc, d.c))
\* COM_FIELD_LIST response
DecFieldList(M, i) == DecFieldDefs(M, i, << >>)

RECURSIVE FindNul(_, _)
FindNul(p, i) == IF i > Len(p) THEN 0 ELSE IF p[i] = 0 THEN i ELSE FindNul(p, i + 1)
\* Initial handshake packet, protocol version 10
DecGreeting(p) ==
  IF Len(p) < 1 \/ p[1] # 10 THEN DBad("greeting: protocol version")
  ELSE LET z == FindNul(p, 2) IN
    IF z = 0 THEN DBad("greeting: server version not terminated")
    \* after the NUL: conn id 4, seed 8, filler 1, caps lo 2, charset 1, status 2, caps hi 2, auth len 1, reserved 10
    ELSE IF z + 31 > Len(p) THEN DBad("greeting: fixed fields truncated")
    ELSE IF p[z + 13] # 0 THEN DBad("greeting: filler")
    ELSE [ok |-> TRUE, capslo |-> Le16(p, z + 14), capshi |-> Le16(p, z + 19), charset |-> p[z + 16],
          status |-> Le16(p, z + 17), version |-> SubSeq(p, 2, z - 1)]
=============================================================================
