SPECIFICATION Spec
CONSTANTS
  MaxOps = 6
  MoreOnLast = FALSE
  EofForZeroCols = FALSE
  Recover = TRUE
  LeakHeader = FALSE
INVARIANTS P_C03 P_Shape
CHECK_DEADLOCK FALSE
