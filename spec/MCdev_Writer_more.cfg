SPECIFICATION Spec
CONSTANTS
  MaxOps = 4
  MoreOnLast = TRUE
  EofForZeroCols = FALSE
  Recover = TRUE
  LeakHeader = FALSE
INVARIANTS P_C03 P_Shape
CHECK_DEADLOCK FALSE
