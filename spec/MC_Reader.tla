----------------------------- MODULE MC_Reader -----------------------------
(***************************************************************************)
(* Operational model of PacketConn::next (packet.rs): the read buffer      *)
(* `bytes`, the consumed prefix `start`, the unparsed tail `remaining`,    *)
(* parse-before-read, drain, grow, EOF handling, and the nom parser        *)
(* packet() = fold of maximal fragments followed by a shorter one -        *)
(* explored for EVERY partition of the client byte stream into reads.      *)
(* Property (C01): the payloads delivered are exactly                      *)
(* Packets!Reassemble(wire) (denotational framing), in order, each once,   *)
(* however the stream is chunked; (C19) EOF inside a packet is an error,   *)
(* EOF at a boundary is a clean end; (C12) the reader never asks for input *)
(* while a complete message is buffered.                                   *)
(* Deviations (named, switchable) reproduce realistic slips and must make  *)
(* TLC report a violation.                                                 *)
(***************************************************************************)
EXTENDS Packets, TLC, FiniteSets, Json

CONSTANTS MaxCmds, MaxLen,
          Truncate,         \* also explore every truncation of the stream (end of stream inside a packet)
          NoDrain,          \* deviation: forget bytes.drain(0..start)
          StaleRemaining,   \* deviation: remaining not updated after a multi-fragment message
          EofIgnoresRest,   \* deviation: leftover bytes at EOF reported as a clean end
          MinBuf,           \* the buffer offered to read() is max(MinBuf, 2*end) - end (4096 in the code)
          SaturatedSkipsParse \* deviation: after a read that filled the offered buffer, read again before parsing

VARIABLES lens, seq0s, wire, sent, bytes, start, remaining, pc, delivered, res, hist, sat
vars == <<lens, seq0s, wire, sent, bytes, start, remaining, pc, delivered, res, hist, sat>>
\* the observation/history variables are hidden from the state graph
view == <<lens, seq0s, Len(wire), sent, bytes, start, remaining, pc, Len(delivered), res, sat>>

Payload(i, n) == [j \in 1..n |-> (10 * i + j) % 251]
RECURSIVE WireOf(_, _, _)
WireOf(ls, ss, i) == IF i > Len(ls) THEN << >> ELSE Frame(Payload(i, ls[i]), ss[i]) \o WireOf(ls, ss, i + 1)
Expected(ls) == [i \in 1..Len(ls) |-> Payload(i, ls[i])]

\* ---- transcription of packet(): fold_many0(fullpacket) then onepacket ----
IsFull(s) == Len(s) >= 4 + PMAX /\ Le24(s, 1) = PMAX
RECURSIVE Fold(_, _, _)
Fold(s, acc, n) == IF IsFull(s) THEN Fold(SubSeq(s, 5 + PMAX, Len(s)), acc \o SubSeq(s, 5, 4 + PMAX), n + 1) ELSE <<s, acc, n>>
Parse(s) == LET f == Fold(s, << >>, 0) r == f[1] IN
            IF Len(r) >= 4 /\ Len(r) >= 4 + Le24(r, 1)
            THEN [ok |-> TRUE, pkt |-> f[2] \o SubSeq(r, 5, 4 + Le24(r, 1)), rest |-> SubSeq(r, 5 + Le24(r, 1), Len(r)), frags |-> f[3] + 1]
            ELSE [ok |-> FALSE]

Init == /\ lens \in UNION {[1..n -> 0..MaxLen] : n \in 1..MaxCmds}
        /\ seq0s \in [1..Len(lens) -> {0, 255}]
        /\ wire \in IF Truncate THEN {SubSeq(WireOf(lens, seq0s, 1), 1, t) : t \in 0..Len(WireOf(lens, seq0s, 1))}
                    ELSE {WireOf(lens, seq0s, 1)}
        /\ sent = 0 /\ bytes = << >> /\ start = 0 /\ remaining = 0 /\ pc = "idle" /\ delivered = << >> /\ res = "running"
        /\ hist = << >> /\ sat = FALSE

\* next(): self.start = self.bytes.len() - self.remaining
Enter == /\ pc = "idle" /\ res = "running"
         /\ start' = Len(bytes) - remaining /\ pc' = "try"
         /\ UNCHANGED <<lens, seq0s, wire, sent, bytes, remaining, delivered, res, hist, sat>>
\* if self.remaining != 0 { match packet(&self.bytes[self.start..]) ... }
Try == /\ pc = "try"
       /\ LET p == IF remaining # 0 /\ ~(SaturatedSkipsParse /\ sat) THEN Parse(SubSeq(bytes, start + 1, Len(bytes))) ELSE [ok |-> FALSE] IN
          IF p.ok THEN /\ delivered' = Append(delivered, p.pkt)
                       /\ remaining' = IF StaleRemaining /\ p.frags > 1 THEN remaining ELSE Len(p.rest)
                       /\ pc' = "idle"
                  ELSE /\ pc' = "need" /\ UNCHANGED <<delivered, remaining>>
       /\ UNCHANGED <<lens, seq0s, wire, sent, bytes, start, res, hist, sat>>
\* drain the consumed prefix, read k bytes (any 1 <= k <= available), or hit EOF
Read == /\ pc = "need"
        /\ LET kept == IF NoDrain THEN bytes ELSE SubSeq(bytes, start + 1, Len(bytes))
               \* self.bytes.resize(max(4096, end * 2)): the capacity offered to this read
               want == (IF MinBuf > 2 * Len(kept) THEN MinBuf ELSE 2 * Len(kept)) - Len(kept)
           IN
           \/ /\ sent < Len(wire)
              /\ \E k \in 1..(IF Len(wire) - sent < want THEN Len(wire) - sent ELSE want) :
                   /\ bytes' = kept \o SubSeq(wire, sent + 1, sent + k) /\ sent' = sent + k
                   /\ hist' = Append(hist, k) /\ sat' = (k = want)
              /\ remaining' = Len(bytes') /\ start' = 0 /\ pc' = "try" /\ UNCHANGED res
           \/ /\ sent = Len(wire)
              /\ bytes' = kept /\ start' = 0 /\ remaining' = Len(kept) /\ pc' = "done" /\ UNCHANGED <<sent, hist>> /\ sat' = FALSE
              /\ res' = IF kept = << >> \/ EofIgnoresRest THEN "none" ELSE "eof_err"
        /\ UNCHANGED <<lens, seq0s, wire, delivered>>
Next == Enter \/ Try \/ Read
Spec == Init /\ [][Next]_vars

\* ---- properties ----
P_C01 == LET want == Reassemble(wire) IN
         /\ \A i \in 1..Len(delivered) : i <= Len(want) /\ delivered[i] = want[i]                 \* prefix, byte for byte
         /\ remaining <= Len(bytes)
         /\ (~Truncate) => want = Expected(lens)                                                 \* the oracle agrees with the script
         /\ (pc = "done") => delivered = want                                                    \* everything that was complete
\* (C19) end of stream: clean exactly at a message boundary
P_C19 == (pc = "done") => (res = "none" <=> WellFramed(wire))
\* (C12) input is only requested when no complete message is buffered
P_C12 == (pc = "need") => Len(Messages(SubSeq(bytes, start + 1, Len(bytes))).msgs) = 0 \/ remaining = 0
\* behaviours for replay: the chunking that led here
Emit == (pc = "done") => PrintT(<<"REPLAY", ToJson([lens |-> lens, seq0s |-> seq0s, chunks |-> hist])>>)
=============================================================================
