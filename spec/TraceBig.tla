------------------------------ MODULE TraceBig ------------------------------
(***************************************************************************)
(* Trace monitor for runs with 16-50 MiB messages.  All byte strings in    *)
(* the trace are run-length encoded (RLE.tla), so the framing definitions  *)
(* are evaluated with the real PMAX = 2^24-1.  It judges:                  *)
(*   C01  every (multi-packet) command reaches the shim byte-for-byte      *)
(*        whatever the chunking; long data (C17) is concatenated in order  *)
(*   C04  client-side reassembly of the server's output yields exactly the *)
(*        messages the shim's program denotes (rows with giant cells, ERR  *)
(*        with a giant message), maximal packets + a shorter closer        *)
(*   C05  sequence ids of multi-packet requests/responses                  *)
(*   C20  no panic on out-of-order fragment ids                            *)
(* The vocabulary is restricted (byte-string/NULL cells, simple programs); *)
(* everything else is judged by Trace.tla on flat traces.                  *)
(***************************************************************************)
EXTENDS WriterSem, RLE, FiniteSets

Rec == ndJsonDeserialize(IOEnv.TRACE)

VARIABLES l, m, viol
vars == <<l, m, viol>>

M0 == [run |-> "", inb |-> << >>, cmds |-> << >>, di |-> 0, ob |-> << >>, unfl |-> 0, cbs |-> << >>, cur |-> 0,
       long |-> << >>, reg |-> << >>, fault |-> FALSE, badfrag |-> FALSE, done |-> FALSE, blocked |-> FALSE,
       n |-> [cmds |-> 0, cbs |-> 0, units |-> 0, rows |-> 0, pvs |-> 0, pkts |-> 0, rds |-> 0, bytes_in |-> 0, bytes_out |-> 0, big_msgs |-> 0]]
Init == l = 1 /\ m = M0 /\ viol = {}

First(p) == IF p = << >> THEN -1 ELSE p[1][1]
SMALL == 8192
Flat(msg) == [p |-> RExpand(msg.p), seq0 |-> msg.seq0, seqN |-> msg.seqN, consec |-> msg.consec, at |-> 0]

\* pending long data: sequence of [id, param, data]
LongFind(L, id, pi) == LET S == {i \in 1..Len(L) : L[i].id = id /\ L[i].param = pi} IN IF S = {} THEN 0 ELSE CHOOSE i \in S : TRUE

NeedsCb(p) == First(p) \in {3, 22, 23, 2, 25}
CbName(p) == CASE First(p) = 3 -> "on_query" [] First(p) = 22 -> "on_prepare" [] First(p) = 23 -> "on_execute"
               [] First(p) = 2 -> "on_init" [] OTHER -> "on_close"

RECURSIVE SkipTo(_)
\* advance the dispatch index over commands that need no callback, applying long data
SkipTo(mm) ==
  LET i == mm.di + 1 IN
  IF i > Len(mm.cmds) THEN mm
  ELSE LET p == mm.cmds[i].p IN
    IF i = 1 \/ NeedsCb(p) THEN mm
    ELSE IF First(p) = 24 /\ RLen(p) >= 7 THEN
      LET h == RExpand(RTake(p, 7))
          id == Sub(h, 2, 4)
          pi == Le16(h, 6)
          k == LongFind(mm.long, id, pi)
          data == RDrop(p, 7)
      IN SkipTo([mm EXCEPT !.di = i,
                           !.long = IF k = 0 THEN Append(@, [id |-> id, param |-> pi, data |-> data])
                                    ELSE [@ EXCEPT ![k].data = RCat(@, data)]])
    ELSE SkipTo([mm EXCEPT !.di = i])

\* ---- inline parameters of a (giant) COM_STMT_EXECUTE (C08): restricted decoder over runs ----
\* registry of prepared statements: sequence of [id, np]
RegNp(R, id) == LET S == {i \in 1..Len(R) : R[i].id = id} IN IF S = {} THEN -1 ELSE R[CHOOSE i \in S : \A j \in S : j <= i].np
StrTypes == {0, 15, 16, 245, 246, 247, 248, 249, 250, 251, 252, 253, 254, 255}
FixLen(t) == CASE t = 1 -> 1 [] t \in {2, 13} -> 2 [] t \in {3, 9, 4} -> 4 [] t \in {8, 5} -> 8 [] OTHER -> -1
RECURSIVE BigVals(_, _, _, _, _, _, _)
\* walk the value area: j = parameter index (1-based), off = 1-based position in p; acc = sequence of expectations
BigVals(p, hd, np, bl, j, off, acc) ==
  IF j > np THEN [ok |-> TRUE, vals |-> acc]
  ELSE LET isnull == (hd[11 + ((j - 1) \div 8)] \div (2 ^ ((j - 1) % 8))) % 2 = 1
           t == hd[12 + bl + 2 * (j - 1)]
       IN IF isnull THEN BigVals(p, hd, np, bl, j + 1, off, Append(acc, [kind |-> "null"]))
          ELSE IF t \in StrTypes THEN
             LET pre == RExpand(RSub(p, off, 9))
                 h == LenencAt(pre, 1)
             IN IF ~h.ok \/ ~U64Small(h.v) THEN [ok |-> FALSE, vals |-> acc]
                ELSE LET n == U64Int(h.v) hl == h.next - 1 IN
                     BigVals(p, hd, np, bl, j + 1, off + hl + n, Append(acc, [kind |-> "bytes", b |-> RSub(p, off + hl, n), n |-> n]))
          ELSE IF FixLen(t) > 0 THEN BigVals(p, hd, np, bl, j + 1, off + FixLen(t), Append(acc, [kind |-> "fixed"]))
          ELSE [ok |-> FALSE, vals |-> acc]
\* expectation for an execution whose parameters are all bound in this command (new-params-bound = 1) and none
\* of which is supplied as long data; anything else is left to the flat monitor
BigExec(p, np, haslong) ==
  IF np <= 0 \/ np > 16 \/ haslong THEN [ok |-> FALSE, vals |-> << >>]
  ELSE LET bl == (np + 7) \div 8
           hlen == 11 + bl + 2 * np
       IN IF RLen(p) < hlen THEN [ok |-> FALSE, vals |-> << >>]
          ELSE LET hd == RExpand(RTake(p, hlen)) IN
               IF hd[11 + bl] # 1 THEN [ok |-> FALSE, vals |-> << >>]
               ELSE BigVals(p, hd, np, bl, 1, hlen + 1, << >>)

\* ---- expected encodings (exact) of the big messages ----
CellEnc(c) == IF c.t = "null" THEN <<<<251, 1>>>> ELSE RLenencStr(c.b)
RECURSIVE TextRowEnc(_, _)
TextRowEnc(cells, i) == IF i > Len(cells) THEN << >> ELSE RCat(CellEnc(cells[i]), TextRowEnc(cells, i + 1))
RECURSIVE BitmapByte(_, _, _)
\* value of bitmap byte number byte (0-based) for the cells
BitmapByte(cells, byte, bit) ==
  IF bit > 7 THEN 0
  ELSE LET pos == byte * 8 + bit - 2   \* cell index (0-based) stored at this bit
           on == pos >= 0 /\ pos < Len(cells) /\ cells[pos + 1].t = "null"
       IN (IF on THEN 2 ^ bit ELSE 0) + BitmapByte(cells, byte, bit + 1)
RECURSIVE BinCellsEnc(_, _)
BinCellsEnc(cells, i) == IF i > Len(cells) THEN << >>
                         ELSE IF cells[i].t = "null" THEN BinCellsEnc(cells, i + 1)
                         ELSE RCat(RLenencStr(cells[i].b), BinCellsEnc(cells, i + 1))
BinRowEnc(cells) ==
  LET bl == (Len(cells) + 9) \div 8 IN
  RCatAll(<<ToRuns(<<0>>), ToRuns([b \in 1..bl |-> BitmapByte(cells, b - 1, 0)]), BinCellsEnc(cells, 1)>>)
ErrEnc(kind, msg) ==
  LET r == ErrRef[kind] IN
  RCat(ToRuns(<<255, r.code % 256, r.code \div 256, 35>> \o r.state), msg)

\* ---- walking the reassembled output against the commands ----
\* one unit of a response at message index i: returns [ok, next, viol]
UnitWalk(M, i, u, bin, at) ==
  IF u.k = "ok" THEN
     IF i > Len(M) THEN [next |-> i, viol |-> {V("C03", at, "completion missing")}]
     ELSE LET d == DecOk(RExpand(RTake(M[i].p, SMALL))) IN
          [next |-> i + 1, viol |-> IF ~d.ok THEN {V("C03", at, "completion undecodable")}
                                     ELSE (IF d.u.rows # u.rows \/ d.u.id # u.id THEN {V("C14", at, "completion counts differ")} ELSE {})]
  ELSE IF u.k = "err" THEN
     IF i > Len(M) THEN [next |-> i, viol |-> {V("C03", at, "error reply missing")}]
     ELSE [next |-> i + 1,
           viol |-> IF M[i].p # ErrEnc(u.kind, u.msg)
                    THEN {V("C04", at, "reassembled ERR message differs from the one the shim reported"),
                          V("C13", at, "ERR packet differs from code/SQLSTATE/message given")} ELSE {}]
  ELSE \* resultset: count, n definitions, EOF, rows, terminator
     LET n == Len(u.cols)
         nr == Len(u.rows)
         last == i + n + 1 + nr + 1
     IN IF last > Len(M) THEN [next |-> Len(M) + 1, viol |-> {V("C03", at, "resultset incomplete"), V("C04", at, "resultset messages missing after reassembly")}]
        ELSE LET cnt == LenencAt(RExpand(RTake(M[i].p, 16)), 1)
                 vcnt == IF ~cnt.ok \/ ~U64Small(cnt.v) \/ U64Int(cnt.v) # n THEN {V("C09", at, "column count differs")} ELSE {}
                 vcols == UNION {LET d == DecColDef(RExpand(RTake(M[i + j].p, SMALL)), FALSE) IN
                                 IF ~d.ok THEN {V("C09", at, "column definition undecodable")}
                                 ELSE IF ToRuns(d.c.name) # u.cols[j].n \/ d.c.ty # u.cols[j].ty THEN {V("C09", at, "column definition differs")} ELSE {}
                                 : j \in 1..n}
                 veof == IF ~IsEofPkt(RExpand(RTake(M[i + n + 1].p, 16))) THEN {V("C03", at, "EOF after definitions missing")} ELSE {}
                 vrows == UNION {LET want == IF bin THEN BinRowEnc(u.rows[r]) ELSE TextRowEnc(u.rows[r], 1) IN
                                 IF M[i + n + 1 + r].p # want
                                 THEN {V("C04", at, "reassembled row differs from the cells the shim wrote (row length " \o ToString(RLen(want)) \o ")"),
                                       V(IF bin THEN "C07" ELSE "C06", at, "a large value did not arrive unchanged (row length " \o ToString(RLen(want)) \o ")")}
                                 ELSE {} : r \in 1..nr}
                 t == RExpand(RTake(M[last].p, SMALL))
                 vterm == IF u.term = "eof" THEN (IF ~IsEofPkt(t) THEN {V("C03", at, "resultset terminator is not EOF")} ELSE {})
                          ELSE (IF M[last].p # ErrEnc(u.kind, u.msg) THEN {V("C04", at, "reassembled ERR terminator differs")} ELSE {})
             IN [next |-> last + 1, viol |-> vcnt \cup vcols \cup veof \cup vrows \cup vterm]

RECURSIVE UnitsWalk(_, _, _, _, _, _, _)
UnitsWalk(M, i, units, k, bin, at, acc) ==
  IF k > Len(units) THEN [next |-> i, viol |-> acc]
  ELSE LET r == UnitWalk(M, i, units[k], bin, at) IN UnitsWalk(M, r.next, units, k + 1, bin, at, acc \cup r.viol)

\* sequence ids of messages M[a..b-1] continue req
SeqWalk(M, a, b, req, at) ==
  LET bad == {j \in a..(b - 1) : j <= Len(M) /\ (M[j].seq0 # (IF j = a THEN (req + 1) % 256 ELSE (M[j - 1].seqN + 1) % 256) \/ ~M[j].consec)} IN
  (IF bad = {} THEN {} ELSE {V("C05", at, "response packet sequence ids do not continue the request's (multi-packet)")})
  \cup (IF \E j \in a..(b - 1) : j <= Len(M) /\ ~M[j].consec
        THEN {V("C04", at, "the fragments of one logical message do not carry consecutive sequence ids: a client cannot reassemble it")} ELSE {})

RECURSIVE Walk(_, _, _, _, _, _)
\* ci: command index, mi: message index, cbi: index into the callback log
Walk(mm, M, ci, mi, cbi, acc) ==
  IF ci > Len(mm.cmds) THEN [mi |-> mi, viol |-> acc]
  ELSE LET c == mm.cmds[ci] f == First(c.p) IN
    IF ci = 1 THEN \* handshake: one OK
      Walk(mm, M, ci + 1, mi + 1, cbi, acc \cup SeqWalk(M, mi, mi + 1, c.seqN, l)
           \cup (IF mi > Len(M) \/ ~DecOk(RExpand(RTake(M[mi].p, SMALL))).ok THEN {V("C11", l, "handshake not answered with OK")} ELSE {}))
    ELSE IF f = 14 THEN
      Walk(mm, M, ci + 1, mi + 1, cbi, acc \cup SeqWalk(M, mi, mi + 1, c.seqN, l)
           \cup (IF mi > Len(M) \/ ~DecOk(RExpand(RTake(M[mi].p, SMALL))).ok THEN {V("C03", l, "ping not answered with OK")} ELSE {}))
    ELSE IF f \in {24, 25} THEN Walk(mm, M, ci + 1, mi, IF f = 25 THEN cbi + 1 ELSE cbi, acc)
    ELSE IF f = 1 THEN [mi |-> mi, viol |-> acc]
    ELSE IF cbi > Len(mm.cbs) THEN [mi |-> mi, viol |-> acc \cup {V("C02", l, "command without its callback"), V("C01", l, "a command never reached the shim"),
                                                                       V("C12", l, "a command that had arrived was never served")}]
    ELSE LET cb == mm.cbs[cbi] IN
      IF f = 22 THEN \* prepare: decode the (small) reply to find its extent
        LET small == [j \in 1..(Len(M) - mi + 1) |-> Flat([M[mi + j - 1] EXCEPT !.p = RTake(@, SMALL)])]
            d == DecPrepare(small, 1)
        IN IF ~d.ok THEN [mi |-> mi, viol |-> acc \cup {V("C03", l, "prepare reply undecodable")}]
           ELSE Walk(mm, M, ci + 1, mi + d.next - 1, cbi + 1, acc \cup SeqWalk(M, mi, mi + d.next - 1, c.seqN, l))
      ELSE
        LET den == Denote(cb.prog, f = 23, l)
            r == UnitsWalk(M, mi, den.units, 1, f = 23, l, {})
        IN Walk(mm, M, ci + 1, r.next, cbi + 1, acc \cup r.viol \cup den.viol \cup SeqWalk(M, mi, r.next, c.seqN, l))

Step ==
  /\ l <= Len(Rec)
  /\ l' = l + 1
  /\ LET e == Rec[l] IN
     CASE e.e = "begin" -> m' = [M0 EXCEPT !.run = e.run] /\ viol' = {}
       [] e.e = "wr" -> m' = [m EXCEPT !.ob = RCat(@, e.b), !.unfl = @ + RLen(e.b), !.n.bytes_out = @ + RLen(e.b)] /\ UNCHANGED viol
       [] e.e = "fl" -> m' = [m EXCEPT !.unfl = 0] /\ UNCHANGED viol
       [] e.e = "rd" ->
            LET s == RCat(m.inb, e.got)
                r == RMessages(s)
                bad == \E i \in 1..Len(r.msgs) : ~r.msgs[i].consec
            IN /\ m' = SkipTo([m EXCEPT !.inb = r.rest, !.cmds = @ \o r.msgs, !.badfrag = @ \/ bad,
                                       !.n.rds = @ + 1, !.n.cmds = @ + Len(r.msgs), !.n.bytes_in = @ + RLen(e.got),
                                       !.n.big_msgs = @ + Cardinality({i \in 1..Len(r.msgs) : r.msgs[i].n > 1})])
               /\ viol' = viol \cup (IF m.unfl # 0 THEN {V("C12", l, "server waits for input with unflushed output")} ELSE {})
       [] e.e \in {"rd_err", "wr_err", "fl_err"} -> m' = [m EXCEPT !.fault = TRUE] /\ UNCHANGED viol
       [] e.e = "rd_block" ->
            \* the lock-step client is waiting for an answer and the server asks for more input: it neither
            \* answered the (complete) message it holds nor gave up
            /\ m' = [m EXCEPT !.blocked = TRUE]
            /\ viol' = viol \cup {V("C20", l, "the server neither answered nor gave up: it waits for input after a complete message"),
                                   V("C12", l, "server waits for input while the client is waiting for a reply")}
                             \cup (IF SkipTo(m).di < Len(m.cmds)
                                   THEN {V("C01", l, "a completely received (multi-packet) command was not delivered to the shim: the server keeps waiting for input")}
                                   ELSE {})
       [] e.e = "cb" ->
            IF e.name = "auth" THEN m' = [m EXCEPT !.di = 1] /\ UNCHANGED viol
            ELSE LET mm == SkipTo(m)
                     i == mm.di + 1
                 IN IF i > Len(mm.cmds) THEN m' = mm /\ viol' = viol \cup {V("C02", l, "callback without a pending command")}
                    ELSE LET p == mm.cmds[i].p
                             vname == IF CbName(p) # e.name THEN {V("C02", l, "callback " \o e.name \o " where " \o CbName(p) \o " was due")} ELSE {}
                             varg == IF vname # {} THEN {}
                                     ELSE IF e.name \in {"on_query", "on_prepare", "on_init"} THEN
                                       (IF e.text # RDrop(p, 1)
                                        THEN {V("C01", l, "argument of " \o e.name \o " differs from the bytes the client sent (" \o ToString(RLen(p) - 1) \o " bytes, " \o ToString(mm.cmds[i].n) \o " packets)"),
                                              V("C02", l, "argument of " \o e.name \o " differs from what the client sent")} ELSE {})
                                     ELSE (IF RLen(p) < 5 \/ e.id # RExpand(RSub(p, 2, 4)) THEN {V("C02", l, "statement id differs")} ELSE {})
                             xid == IF e.name = "on_execute" /\ RLen(p) >= 5 THEN RExpand(RSub(p, 2, 4)) ELSE << >>
                             xnp == IF xid = << >> THEN -1 ELSE RegNp(mm.reg, xid)
                             exp == IF xnp < 0 THEN [ok |-> FALSE, vals |-> << >>]
                                    ELSE BigExec(p, xnp, \E k \in 1..Len(mm.long) : mm.long[k].id = xid)
                         IN /\ m' = [mm EXCEPT !.di = i, !.cbs = Append(@, [name |-> e.name, prog |-> << >>, cmd |-> i, exp |-> exp, npv |-> 0, np |-> xnp]), !.cur = Len(mm.cbs) + 1,
                                               !.n.cbs = @ + 1]
                            /\ viol' = viol \cup vname \cup varg
       [] e.e = "pv" ->
            \* long data delivered as parameter value: concatenation of the chunks, in order (C17, C01)
            IF m.cur = 0 THEN UNCHANGED <<m, viol>>
            ELSE LET c == m.cmds[m.cbs[m.cur].cmd]
                     id == RExpand(RSub(c.p, 2, 4))
                     k == LongFind(m.long, id, e.idx)
                     x == m.cbs[m.cur].exp
                 IN /\ m' = [m EXCEPT !.n.pvs = @ + 1, !.cbs[m.cur].npv = @ + 1]
                    /\ viol' = viol \cup
                         (IF k # 0 /\ (e.inner.t # "bytes" \/ e.inner.b # m.long[k].data)
                          THEN {V("C17", l, "long data delivered differs from the concatenation of the chunks sent"),
                                V("C01", l, "long-data bytes seen by the shim differ from the bytes the client sent")} ELSE {})
                         \cup (IF x.ok /\ e.idx + 1 <= Len(x.vals) /\ x.vals[e.idx + 1].kind = "bytes"
                                  /\ (e.inner.t # "bytes" \/ e.inner.b # x.vals[e.idx + 1].b)
                               THEN {V("C08", l, "inline parameter value differs from the bytes the client sent (" \o ToString(x.vals[e.idx + 1].n) \o " bytes)"),
                                     V("C01", l, "parameter bytes seen by the shim differ from the bytes the client sent")} ELSE {})
                         \cup (IF x.ok /\ e.idx + 1 <= Len(x.vals) /\ x.vals[e.idx + 1].kind = "null" /\ e.inner.t # "null"
                               THEN {V("C08", l, "a NULL parameter was delivered as a value")} ELSE {})
       [] e.e = "w" ->
            IF m.cur = 0 THEN UNCHANGED <<m, viol>>
            ELSE m' = [m EXCEPT !.cbs[m.cur].prog = Append(@, [op |-> e.op, res |-> e.res, st |-> e.st, kind |-> IF "kind" \in DOMAIN e THEN e.kind ELSE ""]),
                                !.reg = IF e.op.op = "reply" /\ e.res = "ok" THEN Append(@, [id |-> e.op.id, np |-> Len(e.op.params)]) ELSE @] /\ UNCHANGED viol
       [] e.e = "cb_ret" ->
            \* long data is consumed by the execution
            LET isexec == m.cur # 0 /\ e.name = "on_execute"
                id == IF isexec THEN RExpand(RSub(m.cmds[m.cbs[m.cur].cmd].p, 2, 4)) ELSE << >>
            IN /\ m' = [m EXCEPT !.cur = 0, !.long = IF isexec THEN SelectSeq(@, LAMBDA x : x.id # id) ELSE @]
               /\ viol' = viol \cup (IF isexec /\ m.cbs[m.cur].exp.ok /\ e.ret.k = "ok" /\ m.cbs[m.cur].npv # m.cbs[m.cur].np /\ ~m.fault
                                      THEN {V("C08", l, "number of parameters delivered differs from the number declared (" \o ToString(m.cbs[m.cur].npv) \o " of " \o ToString(m.cbs[m.cur].np) \o ")")}
                                      ELSE {})
       [] e.e = "end" ->
            LET mm == SkipTo(m)
                r == RMessages(mm.ob)
                M == r.msgs
                partial == mm.inb # << >> /\ e.client_left = 0      \* the stream really ended, inside a (multi-packet) message
                expectErr == mm.badfrag \/ mm.fault \/ partial
                vres == IF e.result = "panic" THEN {V("C20", l, "run_on panicked at " \o e.site)}
                        ELSE IF e.result \in {"livelock", "timeout"} THEN {V("C20", l, "run_on did not terminate")}
                        ELSE IF partial /\ ~mm.badfrag /\ ~mm.fault /\ e.result = "ok"
                             THEN {V("C19", l, "run_on returned Ok although the stream ended inside a multi-packet message (" \o ToString(RLen(mm.inb)) \o " bytes pending)")}
                        ELSE IF mm.fault /\ e.result = "ok" THEN {V("C19", l, "run_on returned Ok although the transport reported an error")}
                        ELSE IF expectErr /\ e.result = "ok" THEN {V("C20", l, "out-of-order fragments accepted silently")}
                        ELSE IF ~expectErr /\ e.result # "ok" /\ ~mm.blocked
                             THEN {V("C19", l, "run_on returned an error on a fault-free conformant conversation"),
                                   V("C01", l, "a well-formed command stream was not delivered to the end: run_on gave up (" \o ToString(Len(mm.cmds) - mm.di) \o " commands never dispatched)")}
                                  \cup (IF \E i \in (mm.di + 1)..Len(mm.cmds) : NeedsCb(mm.cmds[i].p)
                                        THEN {V("C02", l, "a command never reached its callback: run_on gave up on a conformant conversation"),
                                              V("C12", l, "a command that had arrived completely was never served")} ELSE {})
                                  \* long data for a live statement that no execution ever received
                                  \cup (IF mm.long # << >> \/ (\E i \in (mm.di + 1)..Len(mm.cmds) : First(mm.cmds[i].p) = 24)
                                        THEN {V("C17", l, "long data sent for a prepared statement was never delivered: the connection ended with an error on a conformant conversation"),
                                              V("C10", l, "a prepared statement stopped being usable although it was never closed")} ELSE {})
                                  \cup (IF mm.di < Len(mm.cmds) /\ mm.cmds[mm.di + 1].n > 1 /\ mm.cmds[mm.di + 1].seqN < mm.cmds[mm.di + 1].seq0
                                        THEN {V("C05", l, "a request whose fragment sequence ids wrap from 255 to 0 was not answered")} ELSE {})
                        ELSE {}
                vout == IF expectErr \/ e.result # "ok" THEN {}
                        ELSE (IF r.rest # << >> THEN {V("C04", l, "output ends inside a packet or with an unterminated maximal packet")} ELSE {})
                             \cup (IF Len(M) = 0 \/ M[1].seq0 # 0 THEN {V("C05", l, "greeting missing or not sequence id 0")} ELSE {})
                             \cup (LET w == Walk(mm, M, 1, 2, 1, {}) IN
                                   w.viol \cup (IF w.mi # Len(M) + 1 THEN {V("C03", l, "surplus or missing messages after reassembly: " \o ToString(Len(M) + 1 - w.mi)),
                                                                         V("C04", l, "client-side reassembly yields messages the server did not mean to send (or misses some): " \o ToString(Len(M) + 1 - w.mi))} ELSE {}))
            IN /\ m' = [mm EXCEPT !.done = TRUE, !.n.pkts = Len(RSplit(mm.ob).pk), !.n.units = Len(M)]
               /\ viol' = viol \cup vres \cup vout
       [] OTHER -> UNCHANGED <<m, viol>>

Spec == Init /\ [][Step]_vars

Verdict ==
  m.done => PrintT(<<"VERDICT", ToJson([run |-> m.run, viol |-> viol, stats |-> m.n, floats |-> << >>,
                                          flags |-> [lost |-> FALSE, free |-> FALSE, dead |-> "", quit |-> FALSE]])>>)
Accepted == IF TLCGet("stats").diameter - 1 = Len(Rec) THEN TRUE
            ELSE Print(<<"NOT-ALL-EVENTS-CONSUMED", TLCGet("stats").diameter - 1, Len(Rec)>>, FALSE)
=============================================================================
