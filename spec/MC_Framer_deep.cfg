SPECIFICATION Spec
CONSTANTS
  PMAX = 6
  MaxMsgs = 2
  MaxLen = 20
  HeaderCountsTowardsLimit = FALSE
  EmitsEmptyCloser = TRUE
INVARIANTS P_C04 P_C05
VIEW view
CHECK_DEADLOCK FALSE
