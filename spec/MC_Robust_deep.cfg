SPECIFICATION Spec
CONSTANTS
  PMAX = 3
  MaxLen = 5
INVARIANT P_Total
CHECK_DEADLOCK FALSE
