----------------------------- MODULE MC_Writer -----------------------------
(***************************************************************************)
(* Operational model of the resultset writer API (resultset.rs):           *)
(*   QueryResultWriter { is_bin, last_end }  -- finalize(more) deferred    *)
(*   RowWriter { columns, col, finished, data }  -- finish_inner, Drop     *)
(* emitting real packet payloads (Encoders.tla), explored for ALL programs *)
(* over the API up to MaxOps calls, in text and binary mode.               *)
(* Property (C03): whenever the program reports success, a conformant      *)
(* client decoder (ClientDecoder.tla) consumes the output exactly and      *)
(* obtains WriterSem!Denote(program) - the meaning of the program defined  *)
(* independently of the last_end mechanism - with MORE on every terminator *)
(* but the last; a call that contradicts the declared row shape is refused *)
(* and no malformed row packet is emitted.  With Recover = TRUE a shim may  *)
(* HANDLE a refused write_col (log it, substitute a value, report an error *)
(* to the client, finish the resultset) instead of propagating it with `?`:*)
(* a refused call must then have left nothing behind - the program means   *)
(* what it means without the refused call.  Deviation LeakHeader: the      *)
(* binary row header byte is put into the open packet by the refused call  *)
(* at column 0 (the behaviour of the pinned tree before its repair).       *)
(* Every complete program is also printed (REPLAY) and executed on the     *)
(* real server; the trace monitor compares.                                *)
(***************************************************************************)
EXTENDS Encoders

CONSTANTS MaxOps,            \* bound on the number of API calls
          MoreOnLast,        \* deviation: finalize(true) in no_more_results (must violate C03)
          EofForZeroCols,    \* deviation: zero-column resultset terminated by EOF instead of OK
          Recover,           \* programs may continue after a refused write_col
          LeakHeader         \* deviation: a refused binary write_col at column 0 leaves the row header byte in the open packet

VARIABLES ws, isBin, lastEnd, cols, col, out, prog, outcome, started, pendingCell, stray
vars == <<ws, isBin, lastEnd, cols, col, out, prog, outcome, started, pendingCell, stray>>

MOREFLAG == 8
NoneE == [k |-> "none"]
\* the columns a resultset may declare (index = number of columns)
C1 == [t |-> <<116>>, n |-> <<97>>, ty |-> 3, fl |-> 0]          \* t.a  INT, nullable
C2 == [t |-> <<116>>, n |-> <<98>>, ty |-> 253, fl |-> 1]        \* t.b  VAR_STRING NOT NULL
ColSets == <<<< >>, <<C1>>, <<C1, C2>>>>
\* values a program may write
VInt == [k |-> "i32", le |-> <<5, 0, 0, 0, 0, 0, 0, 0>>, c |-> [t |-> "int", le |-> <<5, 0, 0, 0, 0, 0, 0, 0>>, s |-> TRUE]]
VStr == [k |-> "str", b |-> <<104, 105>>, c |-> [t |-> "bytes", b |-> <<104, 105>>]]
VNull == [k |-> "none", of |-> "u8", c |-> [t |-> "null"]]
Vals == {VInt, VStr, VNull}
R7 == IntU64(7)
I9 == IntU64(9)

Init == /\ ws = "Q" /\ isBin \in BOOLEAN /\ lastEnd = NoneE /\ cols = << >> /\ col = 0 /\ out = << >> /\ prog = << >>
        /\ outcome = "running" /\ started = FALSE /\ pendingCell = << >> /\ stray = << >>

CanStep == outcome = "running" /\ Len(prog) < MaxOps
Log(o, res) == prog' = Append(prog, [op |-> o, res |-> res, st |-> IF ws = "Q" THEN "q" ELSE "r"])

\* packets handed to the connection: whatever a refused call left in the open packet buffer is glued
\* in front of the next packet (only the LeakHeader deviation ever leaves anything)
Put(pkts) == /\ out' = out \o (IF stray # << >> /\ pkts # << >> THEN <<stray \o pkts[1]>> \o Tail(pkts) ELSE pkts)
             /\ stray' = IF pkts # << >> THEN << >> ELSE stray

\* finalize(more): the deferred terminator of the previous resultset
Fin(l, more) == IF l.k = "none" THEN << >>
                ELSE IF l.k = "ok" THEN <<OkPkt(l.rows, l.id, IF more THEN MOREFLAG ELSE 0)>>
                ELSE <<EofPkt(IF more THEN MOREFLAG ELSE 0)>>
RECURSIVE DefPkts(_, _)
DefPkts(cs, i) == IF i > Len(cs) THEN << >> ELSE <<ColDefPkt(cs[i], FALSE)>> \o DefPkts(cs, i + 1)
\* RowWriter::new -> start(): column count, definitions, EOF - nothing at all for zero columns
Header(cs) == IF Len(cs) = 0 THEN << >> ELSE <<ColCountPkt(Len(cs))>> \o DefPkts(cs, 1) \o <<EofPkt(0)>>

\* ---------------- QueryResultWriter ----------------
Start(n) ==
  /\ CanStep /\ ws = "Q"
  /\ Log([op |-> "start", cols |-> ColSets[n + 1]], "ok")
  /\ Put(Fin(lastEnd, TRUE) \o Header(ColSets[n + 1]))
  /\ ws' = "R" /\ lastEnd' = NoneE /\ cols' = ColSets[n + 1] /\ col' = 0 /\ started' = TRUE /\ pendingCell' = << >>
  /\ UNCHANGED <<isBin, outcome>>
CompleteOne ==
  /\ CanStep /\ ws = "Q"
  /\ Log([op |-> "complete_one", rows |-> R7, id |-> I9], "ok")
  /\ Put(Fin(lastEnd, TRUE)) /\ lastEnd' = [k |-> "ok", rows |-> R7, id |-> I9] /\ started' = TRUE
  /\ UNCHANGED <<ws, isBin, cols, col, outcome, pendingCell>>
Completed ==
  /\ CanStep /\ ws = "Q"
  /\ Log([op |-> "completed", rows |-> R7, id |-> I9], "ok")
  /\ Put(Fin(lastEnd, TRUE) \o Fin([k |-> "ok", rows |-> R7, id |-> I9], MoreOnLast))
  /\ lastEnd' = NoneE /\ ws' = "Done" /\ outcome' = "ok" /\ started' = TRUE
  /\ UNCHANGED <<isBin, cols, col, pendingCell>>
QError ==
  /\ CanStep /\ ws = "Q"
  /\ Log([op |-> "error", kind |-> "ER_NO", msg |-> <<120>>], "ok")
  /\ Put(Fin(lastEnd, TRUE) \o <<ErrPkt("ER_NO", <<120>>)>>)
  /\ lastEnd' = NoneE /\ ws' = "Done" /\ outcome' = "ok" /\ started' = TRUE
  /\ UNCHANGED <<isBin, cols, col, pendingCell>>
\* no_more_results and Drop both run finalize(false); dropping before anything was started is
\* outside the property ("after a resultset was started")
NoMore(name) ==
  /\ CanStep /\ ws = "Q" /\ started
  /\ Log([op |-> name], "ok")
  /\ Put(Fin(lastEnd, MoreOnLast)) /\ lastEnd' = NoneE /\ ws' = "Done" /\ outcome' = "ok"
  /\ UNCHANGED <<isBin, cols, col, started, pendingCell>>

\* ---------------- RowWriter ----------------
nc == Len(cols)
\* write_col(v): [ok, cell accepted into the pending row]
WriteColRes(v, k) ==
  IF nc = 0 THEN [ok |-> TRUE, take |-> FALSE]
  ELSE IF isBin THEN
     (IF k + 1 > nc THEN [ok |-> FALSE, take |-> FALSE]                                  \* more columns than specification
      ELSE IF v.c.t = "null" THEN [ok |-> ~IsNotNull(cols[k + 1].fl), take |-> ~IsNotNull(cols[k + 1].fl)]
      ELSE IF Compat(v.c, cols[k + 1].ty) # "carries" THEN [ok |-> FALSE, take |-> FALSE]  \* to_mysql_bin refuses
      ELSE [ok |-> TRUE, take |-> TRUE])
  ELSE [ok |-> TRUE, take |-> TRUE]     \* text mode: any value, no shape check until end_row
WriteCol(v) ==
  /\ CanStep /\ ws = "R"
  /\ LET r == WriteColRes(v, col) IN
     /\ IF r.ok THEN Log([op |-> "write_col", v |-> v], "ok")
        ELSE Log([op |-> "write_col", v |-> v, cont |-> Recover], "err")
     /\ col' = IF r.take THEN col + 1 ELSE col
     /\ pendingCell' = IF r.take THEN Append(pendingCell, v.c) ELSE pendingCell
     \* a handled refusal: the shim carries on with the same row writer
     /\ outcome' = IF r.ok \/ Recover THEN outcome ELSE "err"
     \* write_col puts the row header into the open packet when col = 0, before it looks at the value
     /\ stray' = IF LeakHeader /\ ~r.ok /\ isBin /\ nc # 0 /\ col = 0 /\ col + 1 <= nc THEN stray \o <<0>> ELSE stray
  /\ UNCHANGED <<ws, isBin, lastEnd, cols, out, started>>
RowPkt(cells) == IF isBin THEN BinRowPkt(cells, cols) ELSE TextRowPkt(cells, 1)
\* end_row as a function of the current row: [ok, pkts, col]
EndRowRes(cells, k) ==
  IF nc = 0 THEN [ok |-> TRUE, p |-> << >>, c |-> k + 1]
  ELSE IF k # nc THEN [ok |-> FALSE, p |-> << >>, c |-> k]
  ELSE [ok |-> TRUE, p |-> <<RowPkt(cells)>>, c |-> 0]
EndRow ==
  /\ CanStep /\ ws = "R"
  /\ LET r == EndRowRes(pendingCell, col) IN
     /\ IF r.ok THEN Log([op |-> "end_row"], "ok") ELSE Log([op |-> "end_row", cont |-> Recover], "err")
     \* a refused end_row changes nothing: the shim may add the missing cells and try again
     /\ Put(r.p) /\ col' = r.c /\ outcome' = IF r.ok \/ Recover THEN outcome ELSE "err"
     /\ pendingCell' = IF r.ok THEN << >> ELSE pendingCell
  /\ UNCHANGED <<ws, isBin, lastEnd, cols, started>>
\* write_row(vs): write_col for each value (stopping at the first refusal), then end_row
RECURSIVE WriteAll(_, _, _, _)
WriteAll(vs, i, cells, k) ==
  IF i > Len(vs) THEN [ok |-> TRUE, cells |-> cells, k |-> k]
  ELSE LET r == WriteColRes(vs[i], k) IN
       IF ~r.ok THEN [ok |-> FALSE, cells |-> cells, k |-> k]
       ELSE WriteAll(vs, i + 1, IF r.take THEN Append(cells, vs[i].c) ELSE cells, IF r.take THEN k + 1 ELSE k)
WriteRow(vs) ==
  /\ CanStep /\ ws = "R"
  /\ LET w == IF nc = 0 THEN [ok |-> TRUE, cells |-> pendingCell, k |-> col] ELSE WriteAll(vs, 1, pendingCell, col)
         r == IF w.ok THEN EndRowRes(w.cells, w.k) ELSE [ok |-> FALSE, p |-> << >>, c |-> w.k]
     IN /\ Log([op |-> "write_row", vs |-> vs], IF r.ok THEN "ok" ELSE "err")
        /\ Put(r.p) /\ col' = r.c /\ outcome' = IF r.ok THEN outcome ELSE "err"
        /\ pendingCell' = IF r.ok THEN << >> ELSE w.cells
  /\ UNCHANGED <<ws, isBin, lastEnd, cols, started>>
\* finish_inner(complete): auto end of the last row; choice OK-vs-EOF for zero-column sets
FinishInner(complete) ==
  LET r == IF nc # 0 /\ col # 0 THEN EndRowRes(pendingCell, col) ELSE [ok |-> TRUE, p |-> << >>, c |-> col] IN
  [ok |-> r.ok, p |-> r.p,
   le |-> IF ~complete THEN NoneE
          ELSE IF nc = 0 /\ ~EofForZeroCols THEN [k |-> "ok", rows |-> IntU64(r.c), id |-> Z8]
          ELSE [k |-> "eof"]]
FinishOne ==
  /\ CanStep /\ ws = "R"
  /\ LET f == FinishInner(TRUE) IN
     /\ Log([op |-> "finish_one"], IF f.ok THEN "ok" ELSE "err")
     /\ IF f.ok THEN Put(f.p) /\ lastEnd' = f.le /\ ws' = "Q" /\ col' = 0 /\ pendingCell' = << >> /\ UNCHANGED outcome
        ELSE outcome' = "err" /\ UNCHANGED <<out, lastEnd, ws, col, pendingCell, stray>>
  /\ UNCHANGED <<isBin, cols, started>>
\* finish = finish_one + no_more_results;  drop = finish_inner(true) + drop of the result writer
FinishLike(name) ==
  /\ CanStep /\ ws = "R"
  /\ LET f == FinishInner(TRUE) IN
     \* Drop cannot return the error of a partial, contradicting last row: it is swallowed and the
     \* resultset is left unterminated ("misuse": outside the property, never judged)
     /\ Log([op |-> name], IF f.ok \/ name = "drop" THEN "ok" ELSE "err")
     /\ IF f.ok THEN Put(f.p \o Fin(f.le, MoreOnLast)) /\ lastEnd' = NoneE /\ ws' = "Done" /\ outcome' = "ok" /\ col' = 0 /\ pendingCell' = << >>
        ELSE outcome' = (IF name = "drop" THEN "misuse" ELSE "err") /\ UNCHANGED <<out, lastEnd, ws, col, pendingCell, stray>>
  /\ UNCHANGED <<isBin, cols, started>>
FinishError ==
  /\ CanStep /\ ws = "R"
  /\ LET f == FinishInner(FALSE) IN
     /\ Log([op |-> "finish_error", kind |-> "ER_NO", msg |-> <<120>>], IF f.ok THEN "ok" ELSE "err")
     /\ IF f.ok THEN Put(f.p \o <<ErrPkt("ER_NO", <<120>>)>>) /\ lastEnd' = NoneE /\ ws' = "Done" /\ outcome' = "ok" /\ col' = 0 /\ pendingCell' = << >>
        ELSE outcome' = "err" /\ UNCHANGED <<out, lastEnd, ws, col, pendingCell, stray>>
  /\ UNCHANGED <<isBin, cols, started>>

Next == \/ \E n \in 0..2 : Start(n)
        \/ CompleteOne \/ Completed \/ QError \/ NoMore("no_more_results") \/ NoMore("drop")
        \/ \E v \in Vals : WriteCol(v)
        \/ EndRow
        \/ \E vs \in {<< >>, <<VInt>>, <<VInt, VStr>>, <<VNull, VStr>>, <<VInt, VNull>>, <<VStr>>} : WriteRow(vs)
        \/ FinishOne \/ FinishLike("finish") \/ FinishLike("drop") \/ FinishError
Spec == Init /\ [][Next]_vars

\* ---------------- the property ----------------
Msgs == [i \in 1..Len(out) |-> [p |-> out[i], seq0 |-> 0, seqN |-> 0, consec |-> TRUE, at |-> 0]]
P_C03 ==
  (outcome = "ok") =>
     LET d == DecResponse(Msgs, 1)
         den == Denote(prog, isBin, 0)
     IN /\ d.ok /\ d.next = Len(out) + 1               \* exactly one response, nothing left over
        /\ den.viol = {}                               \* no malformed call was accepted
        /\ ResponseCmp(d.units, den.units, isBin, 0).viol = {}
\* a refused call leaves no malformed row behind: every emitted row packet is well-shaped
P_Shape ==
  (outcome = "err") => Denote(SubSeq(prog, 1, Len(prog) - 1), isBin, 0).viol = {}
\* behaviours for spec -> implementation replay (one line per complete program)
Emit == (outcome # "running") => PrintT(<<"REPLAY", ToJson([bin |-> isBin, prog |-> prog, outcome |-> outcome])>>)
=============================================================================
