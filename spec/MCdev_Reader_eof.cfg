SPECIFICATION Spec
CONSTANTS
  PMAX = 3
  MaxCmds = 1
  MaxLen = 4
  Truncate = TRUE
  NoDrain = FALSE
  StaleRemaining = FALSE
  MinBuf = 4
  SaturatedSkipsParse = FALSE
  EofIgnoresRest = TRUE
INVARIANTS P_C01 P_C12 P_C19
VIEW view
CHECK_DEADLOCK FALSE
