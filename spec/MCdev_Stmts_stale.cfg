SPECIFICATION Spec
CONSTANTS
  Ids = {1, 2}
  MaxHist = 5
  FlagConsumedWhenZero = TRUE
  ClearsLongData = TRUE
  RemoveOnClose = TRUE
  ReprepareFresh = FALSE
  ClearsOnlyOwn = TRUE
  KeepsEmptyLong = TRUE
INVARIANTS P_Registry P_Agree
VIEW view
CHECK_DEADLOCK FALSE
