SPECIFICATION Spec
CONSTANTS
  PMAX = 6
  MaxMsgs = 1
  MaxLen = 14
  HeaderCountsTowardsLimit = TRUE
  EmitsEmptyCloser = TRUE
INVARIANTS P_C04 P_C05
VIEW view
CHECK_DEADLOCK FALSE
