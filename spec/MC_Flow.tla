------------------------------ MODULE MC_Flow -------------------------------
(***************************************************************************)
(* Connection-level operational model of MysqlIntermediary::run_on         *)
(* (lib.rs init() + run()): greeting, handshake, authentication gate,      *)
(* command loop with exactly one flush per command, against                *)
(*   - a client that is either lock-step (sends the next command only      *)
(*     after it has received the reply it is owed) or pipelining,          *)
(*   - a transport that delivers any number of the commands in flight per  *)
(*     read, may end, and may fail at any operation (one-off/persistent).  *)
(* Commands are atoms here (bytes and chunking inside a command are        *)
(* MC_Reader's business).  Properties:                                     *)
(*  (C12) whenever the server reads, everything received is answered and   *)
(*        flushed; the lock-step client never hangs (TLC deadlock check)   *)
(*  (C11) after_authentication first; rejection => error, nothing served   *)
(*  (C19) result = ok iff quit / clean end, handshake done and no fault;   *)
(*        a fault makes the result err and no callback starts after it     *)
(*  (C02/C03 skeleton) callbacks in command order, one reply per command   *)
(* Deviations: FlushPerCommand = FALSE (flush forgotten), GateOnReject =   *)
(* FALSE (connection served after a rejection), SwallowFault = TRUE.       *)
(***************************************************************************)
EXTENDS Integers, Sequences, TLC, FiniteSets, Json

CONSTANTS MaxCmds, WithFaults, MaxOp,
          FlushPerCommand, GateOnReject, SwallowFault

Kinds == {"ping", "query", "close", "longdata", "quit"}
Reply(k) == k \in {"ping", "query", "hs"}
Callback(k) == k \in {"query", "close"}

VARIABLES script, mode, authOk, fault,    \* environment choices
          ci, wirebuf, eofsent,           \* client: next index to send, bytes in flight, closed
          buf, nproc,                     \* server: read but unprocessed commands; commands processed
          pend, got,                      \* reply units written but unflushed / received by the client
          pc, opno, faulted, result, cbs, hsDone, quitSeen, cbAfterFault, hist
vars == <<script, mode, authOk, fault, ci, wirebuf, eofsent, buf, nproc, pend, got, pc, opno, faulted, result, cbs, hsDone, quitSeen, cbAfterFault, hist>>
view == <<script, mode, authOk, fault, ci, wirebuf, eofsent, buf, nproc, pend, got, pc, opno, faulted, result, cbs, hsDone, quitSeen, cbAfterFault>>

Conv == <<"hs">> \o script
NeedReplies(n) == Cardinality({i \in 1..n : Reply(Conv[i])})
NoFault == [at |-> -1, kind |-> "none"]

Init == /\ script \in UNION {[1..n -> Kinds] : n \in 0..MaxCmds}
        /\ mode \in {"lockstep", "pipelined"}
        /\ authOk \in BOOLEAN
        /\ fault \in IF WithFaults THEN {NoFault} \cup {[at |-> k, kind |-> x] : k \in 0..MaxOp, x \in {"oneoff", "persistent"}} ELSE {NoFault}
        /\ ci = 1 /\ wirebuf = << >> /\ eofsent = FALSE /\ buf = << >> /\ nproc = 0 /\ pend = 0 /\ got = 0
        /\ pc = "greet" /\ opno = 0 /\ faulted = FALSE /\ result = "running" /\ cbs = << >>
        /\ hsDone = FALSE /\ quitSeen = FALSE /\ cbAfterFault = FALSE /\ hist = << >>

Env == <<script, mode, authOk, fault>>
\* ---- client ----
ClientWaiting == mode = "lockstep" /\ got < 1 + NeedReplies(ci - 1)
ClientSend == /\ result = "running" /\ ci <= Len(Conv) /\ ~ClientWaiting /\ ~eofsent
              /\ wirebuf' = Append(wirebuf, Conv[ci]) /\ ci' = ci + 1
              /\ UNCHANGED <<Env, eofsent, buf, nproc, pend, got, pc, opno, faulted, result, cbs, hsDone, quitSeen, cbAfterFault, hist>>
ClientClose == /\ result = "running" /\ ci > Len(Conv) /\ ~ClientWaiting /\ ~eofsent /\ eofsent' = TRUE
               /\ UNCHANGED <<Env, ci, wirebuf, buf, nproc, pend, got, pc, opno, faulted, result, cbs, hsDone, quitSeen, cbAfterFault, hist>>

\* ---- transport operation: either the step happens, or the planned fault turns it into an error return ----
Fails == fault.at >= 0 /\ (IF fault.kind = "persistent" THEN opno >= fault.at ELSE opno = fault.at)
TOp(step) == /\ opno' = opno + 1
             /\ IF Fails /\ ~SwallowFault
                THEN /\ faulted' = TRUE /\ pc' = "done" /\ result' = "err"
                     /\ UNCHANGED <<wirebuf, buf, pend, got>>
                ELSE /\ faulted' = (faulted \/ Fails) /\ step
ServerKeeps == UNCHANGED <<Env, ci, eofsent>>

Greet == /\ pc = "greet" /\ ServerKeeps /\ hist' = Append(hist, "greet")
         /\ TOp(pend' = 1 /\ pc' = "greetfl" /\ UNCHANGED <<wirebuf, buf, got, result>>)
         /\ UNCHANGED <<nproc, cbs, hsDone, quitSeen, cbAfterFault>>
GreetFlush == /\ pc = "greetfl" /\ ServerKeeps /\ hist' = Append(hist, "flush")
              /\ TOp(got' = got + pend /\ pend' = 0 /\ pc' = "next" /\ UNCHANGED <<wirebuf, buf, result>>)
              /\ UNCHANGED <<nproc, cbs, hsDone, quitSeen, cbAfterFault>>
\* PacketConn::next(): parse what is buffered before reading
NextCmd == /\ pc = "next" /\ result = "running" /\ ServerKeeps
           /\ pc' = IF buf # << >> THEN "proc" ELSE "read"
           /\ UNCHANGED <<wirebuf, buf, nproc, pend, got, opno, faulted, result, cbs, hsDone, quitSeen, cbAfterFault, hist>>
\* a read delivers any non-empty prefix of what is in flight, or reports the end of the stream
Read == /\ pc = "read" /\ ServerKeeps
        /\ \/ /\ wirebuf # << >>
              /\ \E k \in 1..Len(wirebuf) :
                   /\ hist' = Append(hist, "read" \o ToString(k))
                   /\ TOp(buf' = SubSeq(wirebuf, 1, k) /\ wirebuf' = SubSeq(wirebuf, k + 1, Len(wirebuf)) /\ pc' = "proc"
                          /\ UNCHANGED <<pend, got, result>>)
           \/ /\ wirebuf = << >> /\ eofsent
              /\ hist' = Append(hist, "eof")
              /\ TOp(pc' = "done" /\ result' = (IF hsDone THEN "ok" ELSE "err") /\ UNCHANGED <<wirebuf, buf, pend, got>>)
        /\ UNCHANGED <<nproc, cbs, hsDone, quitSeen, cbAfterFault>>
Proc == /\ pc = "proc" /\ ServerKeeps /\ buf # << >>
        /\ LET c == Head(buf) IN
           /\ buf' = Tail(buf) /\ nproc' = nproc + 1 /\ hist' = Append(hist, c)
           /\ IF c = "hs" THEN
                /\ cbs' = Append(cbs, "auth") /\ cbAfterFault' = (cbAfterFault \/ faulted)
                /\ pend' = pend + 1
                /\ hsDone' = authOk /\ UNCHANGED <<quitSeen, result>>
                /\ pc' = IF authOk \/ ~GateOnReject THEN "flush" ELSE "rejectfl"
              ELSE IF c = "quit" THEN
                /\ pc' = "done" /\ result' = "ok" /\ quitSeen' = TRUE /\ UNCHANGED <<pend, cbs, hsDone, cbAfterFault>>
              ELSE
                /\ cbs' = IF Callback(c) THEN Append(cbs, c) ELSE cbs
                /\ cbAfterFault' = (cbAfterFault \/ (Callback(c) /\ faulted))
                /\ pend' = IF Reply(c) THEN pend + 1 ELSE pend
                /\ pc' = "flush" /\ UNCHANGED <<result, hsDone, quitSeen>>
        /\ UNCHANGED <<wirebuf, got, opno, faulted>>
Flush == /\ pc = "flush" /\ ServerKeeps /\ hist' = Append(hist, "flush")
         /\ IF FlushPerCommand
            THEN TOp(got' = got + pend /\ pend' = 0 /\ pc' = "next" /\ UNCHANGED <<wirebuf, buf, result>>)
            ELSE pc' = "next" /\ UNCHANGED <<opno, faulted, got, pend, wirebuf, buf, result>>
         /\ UNCHANGED <<nproc, cbs, hsDone, quitSeen, cbAfterFault>>
RejectFlush == /\ pc = "rejectfl" /\ ServerKeeps /\ hist' = Append(hist, "flush")
               /\ TOp(got' = got + pend /\ pend' = 0 /\ pc' = "done" /\ result' = "err" /\ UNCHANGED <<wirebuf, buf>>)
               /\ UNCHANGED <<nproc, cbs, hsDone, quitSeen, cbAfterFault>>
Finished == pc = "done" /\ UNCHANGED vars

Next == ClientSend \/ ClientClose \/ Greet \/ GreetFlush \/ NextCmd \/ Read \/ Proc \/ Flush \/ RejectFlush \/ Finished
Spec == Init /\ [][Next]_vars /\ WF_vars(Greet \/ GreetFlush \/ NextCmd \/ Read \/ Proc \/ Flush \/ RejectFlush)

\* ---- properties ----
\* (C12) nothing owed, nothing unflushed when the server asks for input
P_C12 == (pc = "read" /\ ~faulted) => pend = 0 /\ buf = << >> /\ got = 1 + NeedReplies(nproc)
\* (C11) authentication gate
P_C11 == /\ (Len(cbs) > 0 => cbs[1] = "auth")
         /\ (\A i \in 2..Len(cbs) : cbs[i] # "auth")
         /\ (~authOk /\ GateOnReject => Len(cbs) <= 1)
         /\ (pc = "done" /\ ~authOk /\ nproc >= 1 => result = "err")
\* (C02 skeleton) callbacks are exactly those of the processed commands, in order
ExpectedCbs(n) == SelectSeq([i \in 1..n |-> IF Conv[i] = "hs" THEN "auth" ELSE Conv[i]], LAMBDA x : x = "auth" \/ Callback(x))
P_C02 == cbs = ExpectedCbs(nproc)
\* (C19) outcome
P_C19 == /\ ~cbAfterFault
         /\ (pc = "done" /\ faulted => result = "err")
         /\ (pc = "done" /\ result = "ok" => hsDone /\ ~faulted /\ (quitSeen \/ (eofsent /\ wirebuf = << >> /\ buf = << >>)))
         /\ (pc = "done" /\ ~faulted /\ authOk /\ quitSeen => result = "ok")
\* liveness: the connection always terminates once the client has closed or quit (under fairness)
Terminates == <>(pc = "done" \/ (pc = "read" /\ wirebuf = << >> /\ ~eofsent))
EmitReplay == (pc = "done") => PrintT(<<"REPLAY", ToJson([script |-> script, mode |-> mode, authOk |-> authOk, fault |-> fault, hist |-> hist, result |-> result])>>)
=============================================================================
