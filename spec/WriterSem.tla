----------------------------- MODULE WriterSem -----------------------------
(***************************************************************************)
(* Denotation of a writer-API program (what the client must receive),      *)
(* independent of the server's last_end / finalize mechanism, and the      *)
(* comparison of decoded response units with that denotation (C03, C06,    *)
(* C07, C09, C13, C14, C15).                                               *)
(*                                                                         *)
(* prog = sequence of [op |-> <op record>, res |-> "ok" | "err" | "panic"] *)
(***************************************************************************)
EXTENDS Commands, Json, IOUtils

\* reference table name -> [code, state], pinned under spec/data
ErrRef == JsonDeserialize(IOEnv.ERRREF)

V(p, at, why) == [p |-> p, at |-> at, why |-> why]

NoCur == [cols |-> << >>, cells |-> << >>, rows |-> << >>, n0 |-> 0, on |-> FALSE]
CanonOf(vs) == [i \in 1..Len(vs) |-> vs[i].c]

RowClosingOps == {"end_row", "write_row", "finish", "finish_one", "finish_error", "drop"}

\* a refused write_col / end_row that the shim handles instead of propagating it with `?` ("cont" in the scenario)
IsBad(v) == "bad" \in DOMAIN v /\ v.bad       \* a generic Value::Date / Value::Time that is no date / a negative time (scenario marker)
FirstBad(vs) == LET S == {j \in 1..Len(vs) : IsBad(vs[j])} IN IF S = {} THEN 0 ELSE CHOOSE j \in S : \A k \in S : j <= k
\* ... and a write_row refused at such a value: the cells before it stay in the row, the shim completes it by hand
HandledRow(x) == x.res = "err" /\ x.op.op = "write_row" /\ "cont" \in DOMAIN x.op /\ x.op.cont /\ FirstBad(x.op.vs) # 0
Handled(x) == (x.res = "err" /\ x.op.op \in {"write_col", "end_row"} /\ "cont" \in DOMAIN x.op /\ x.op.cont) \/ HandledRow(x)

\* ---- was a refusal justified? ----
\* Refusals come back as InvalidData / Other; other kinds are connection errors and are judged elsewhere.
KindOf(x) == IF "kind" \in DOMAIN x THEN x.kind ELSE "InvalidData"
\* error kinds that can only come from the connection underneath the writer; every other kind of a failed
\* writer call is a refusal by the library (the tree uses InvalidData and Other; a different choice of kind
\* for refusals is not constrained by any property)
TransportKinds == {"WriteZero", "BrokenPipe", "ConnectionReset", "ConnectionAborted", "ConnectionRefused", "NotConnected",
                   "TimedOut", "UnexpectedEof", "Interrupted", "WouldBlock"}
RustInts == {"i8", "u8", "i16", "u16", "i32", "u32", "i64", "u64", "isize", "usize"}
\* x = a refused call (res = "err"), cur = the row-writer state it met: violations if the call had to be accepted
Refusal(x, cur, ctx) ==
  LET o == x.op
      nc == Len(cur.cols)
      k == Len(cur.cells) + 1
  IN
  IF KindOf(x) \in TransportKinds \/ KindOf(x) = "" THEN {}
  ELSE IF o.op = "write_col" THEN
     (IF nc = 0 THEN {V("C03", ctx.at, "write_col refused in a zero-column resultset")}
      ELSE IF ~ctx.bin THEN
           \* (generic Value::Date / Value::Time may hold what is no date or a negative time: refusable)
           (IF IsBad(o.v) \/ (o.v.k = "myc" /\ o.v.c.t \in {"date", "dt", "time"}) THEN {}
            ELSE {V("C06", ctx.at, "a value the shim wrote in answer to a text query was refused")})
      ELSE IF k > nc THEN {}
      ELSE IF o.v.c.t = "null" THEN
           (IF IsNotNull(cur.cols[k].fl) THEN {} ELSE {V("C07", ctx.at, "NULL refused for a nullable column")})
      ELSE IF o.v.c.t = "int" THEN
           (IF cur.cols[k].ty \in IntCols /\ o.v.k \in RustInts /\ MustAccept(o.v.k, MathOf(o.v.c.le, o.v.c.s), cur.cols[k].ty, cur.cols[k].fl)
            THEN {V("C07", ctx.at, "an integer was refused although the column's range contains it"),
                  V("C15", ctx.at, "integer refused although the column's range contains it (row writer)")} ELSE {})
      ELSE IF o.v.c.t \in {"bytes", "f32", "f64", "date", "dt"} /\ Compat(o.v.c, cur.cols[k].ty) = "carries"
           THEN {V("C07", ctx.at, "a value was refused although its column type carries it")}
      ELSE {})
  ELSE IF o.op = "write_row" /\ ~ctx.bin /\ FirstBad(o.vs) = 0 /\ (nc = 0 \/ Len(cur.cells) + Len(o.vs) = nc)
     THEN {V("C06", ctx.at, "a row of the declared shape was refused in a text resultset")}
  ELSE IF o.op = "end_row" /\ (nc = 0 \/ Len(cur.cells) = nc)
     THEN {V("C03", ctx.at, "end_row refused for a row of the declared shape")}
  ELSE IF o.op \in {"finish", "finish_one", "finish_error"} /\ (nc = 0 \/ Len(cur.cells) = 0 \/ Len(cur.cells) = nc)
     THEN {V("C03", ctx.at, o.op \o " refused although no incomplete row is pending")}
          \cup (IF o.op = "finish_error" THEN {V("C13", ctx.at, "an error reported by the shim was refused by the writer instead of reaching the client")} ELSE {})
  ELSE {}

RECURSIVE Den(_, _, _, _, _, _)
\* walk: i-th op; cur row-writer state; units so far; viol so far; isBin; at = trace position
\* returns [units, viol, allok]
Den(prog, i, cur, units, viol, ctx) ==
  IF i > Len(prog) THEN [units |-> units, viol |-> viol]
  ELSE
  LET o == prog[i].op
      res == prog[i].res
      name == o.op
      nc == Len(cur.cols)
  IN
  IF HandledRow(prog[i]) THEN
     Den(prog, i + 1, [cur EXCEPT !.cells = @ \o CanonOf(SubSeq(o.vs, 1, FirstBad(o.vs) - 1))], units, viol, ctx)
  ELSE IF Handled(prog[i]) THEN
     \* a refused write_col that the shim handles (it carries on with the same row writer): the call
     \* must have left nothing behind, so the program means what it means without it
     Den(prog, i + 1, cur, units, viol \cup Refusal(prog[i], cur, ctx), ctx)
  ELSE IF res # "ok" THEN
     \* the program stops at the first refused call; a panic is never a conformant refusal
     [units |-> units,
      viol |-> viol \cup (IF res = "err" THEN Refusal(prog[i], cur, ctx) ELSE {}) \cup (IF res = "panic" THEN {V(IF name \in {"write_col", "write_row"} /\ ctx.bin THEN "C07" ELSE "C03", ctx.at, "writer call panicked: " \o name)}
                               \cup (IF cur.on /\ nc = 0 THEN {V("C14", ctx.at, "a zero-column resultset ended in a panic instead of an OK carrying the number of rows ended")} ELSE {})
                          ELSE {})]
  ELSE IF name = "start" THEN Den(prog, i + 1, [cols |-> o.cols, cells |-> << >>, rows |-> << >>, n0 |-> 0, on |-> TRUE], units, viol, ctx)
  ELSE IF name = "write_col" THEN
     IF nc = 0 THEN Den(prog, i + 1, cur, units, viol, ctx)
     ELSE LET k == Len(cur.cells) + 1
              v1 == IF k > nc /\ ctx.bin THEN {V("C03", ctx.at, "cell beyond the declared columns accepted")} ELSE {}
              v2 == IF k <= nc /\ ctx.bin
                    THEN (IF o.v.c.t = "null" /\ IsNotNull(cur.cols[k].fl) THEN {V("C07", ctx.at, "NULL accepted for a NOT NULL column")} ELSE {})
                         \cup (IF o.v.c.t # "null" /\ Compat(o.v.c, cur.cols[k].ty) = "refuse" THEN {V("C07", ctx.at, "value accepted by a column type that cannot carry it")} ELSE {})
                    ELSE {}
          IN Den(prog, i + 1, [cur EXCEPT !.cells = Append(@, o.v.c)], units, viol \cup v1 \cup v2, ctx)
  ELSE IF name \in {"end_row", "write_row"} THEN
     \* ("times": the scenario's shorthand for end_row called that many times in a zero-column resultset)
     IF nc = 0 THEN Den(prog, i + 1, [cur EXCEPT !.n0 = @ + (IF name = "end_row" /\ "times" \in DOMAIN o THEN o.times ELSE 1)], units, viol, ctx)
     ELSE LET cells == IF name = "write_row" THEN cur.cells \o CanonOf(o.vs) ELSE cur.cells
              v1 == IF Len(cells) # nc THEN {V("C03", ctx.at, "row with a wrong number of cells accepted")} ELSE {}
          IN Den(prog, i + 1, [cur EXCEPT !.cells = << >>, !.rows = Append(@, cells)], units, viol \cup v1, ctx)
  ELSE IF name \in {"finish", "finish_one", "finish_error"} \/ (name = "drop" /\ prog[i].st = "r") THEN
     LET auto == nc # 0 /\ Len(cur.cells) # 0
         rows == IF auto THEN Append(cur.rows, cur.cells) ELSE cur.rows
         \* a drop cannot refuse: dropping a row writer with a partial, contradicting row is shim misuse
         v1 == IF auto /\ Len(cur.cells) # nc
               THEN {V(IF name = "drop" THEN "MISUSE" ELSE "C03", ctx.at, "incomplete last row accepted")} ELSE {}
         u == IF name = "finish_error"
              THEN (IF nc = 0 THEN [k |-> "err", kind |-> o.kind, msg |-> o.msg]
                    ELSE [k |-> "rs", cols |-> cur.cols, rows |-> rows, term |-> "err", kind |-> o.kind, msg |-> o.msg])
              ELSE (IF nc = 0 THEN [k |-> "ok", rows |-> IntU64(cur.n0), id |-> Z8]
                    ELSE [k |-> "rs", cols |-> cur.cols, rows |-> rows, term |-> "eof", kind |-> "", msg |-> << >>])
     IN Den(prog, i + 1, NoCur, Append(units, u), viol \cup v1, ctx)
  ELSE IF name \in {"complete_one", "completed"} THEN
     Den(prog, i + 1, cur, Append(units, [k |-> "ok", rows |-> o.rows, id |-> o.id]), viol, ctx)
  ELSE IF name \in {"error", "perror", "init_err"} THEN
     Den(prog, i + 1, cur, Append(units, [k |-> "err", kind |-> o.kind, msg |-> o.msg]), viol, ctx)
  ELSE IF name = "init_ok" THEN
     Den(prog, i + 1, cur, Append(units, [k |-> "ok", rows |-> Z8, id |-> Z8]), viol, ctx)
  ELSE \* no_more_results, drop of the result writer, return_ok, return_err, reply (handled by the caller)
     Den(prog, i + 1, cur, units, viol, ctx)

Denote(prog, bin, at) == Den(prog, 1, NoCur, << >>, {}, [bin |-> bin, at |-> at])
ProgAllOk(prog) == \A i \in 1..Len(prog) : prog[i].res = "ok" \/ Handled(prog[i])
\* "after a resultset was started": did the program produce any unit at all
ProgStarted(prog) == \E i \in 1..Len(prog) : prog[i].op.op \in {"start", "complete_one", "completed", "error", "perror", "init_ok", "init_err", "reply"}

\* ---- comparison of decoded units with expected units ----
ErrCmp(d, kind, msg, at) ==
  IF kind \notin DOMAIN ErrRef THEN {V("TOOL", at, "error kind missing from the reference table: " \o kind)}
  ELSE (IF d.code # ErrRef[kind].code THEN {V("C13", at, "error code differs for " \o kind)} ELSE {})
       \cup (IF d.state # ErrRef[kind].state THEN {V("C13", at, "SQLSTATE differs for " \o kind)} ELSE {})
       \cup (IF d.msg # msg THEN {V("C13", at, "error message differs")} ELSE {})

ColCmp(dc, ec, at) ==
  (IF dc.table # ec.t THEN {V("C09", at, "column table differs")} ELSE {})
  \cup (IF dc.name # ec.n THEN {V("C09", at, "column name differs")} ELSE {})
  \cup (IF dc.ty # ec.ty THEN {V("C09", at, "column type differs")} ELSE {})
  \cup (IF dc.fl # ec.fl THEN {V("C09", at, "column flags differ")} ELSE {})
ColsCmp(dcs, ecs, at) ==
  IF Len(dcs) # Len(ecs) THEN {V("C09", at, "number of column definitions differs")}
  ELSE UNION {ColCmp(dcs[i], ecs[i], at) : i \in 1..Len(dcs)}

\* text row: [viol, floats]
TextRowCmp(p, exp, at) ==
  LET tc == TextCells(p, 1, << >>) IN
  IF ~tc.ok THEN [viol |-> {V("C06", at, "text row does not parse as length-encoded cells"), V("C03", at, "malformed text row (does not parse as length-encoded cells)")}, floats |-> << >>]
  ELSE IF Len(tc.cells) # Len(exp) THEN [viol |-> {V("C03", at, "text row has a wrong number of cells"),
                                                   V("C06", at, "a text row arrives with a different number of cells than the shim wrote")}, floats |-> << >>]
  ELSE LET chk == [i \in 1..Len(exp) |-> TextCellCheck(tc.cells[i], exp[i])] IN
       [viol |-> {V(IF exp[i].t = "int" THEN "C06" ELSE "C06", at, chk[i]) : i \in {j \in 1..Len(exp) : chk[j] \notin {"", "float"}}},
        floats |-> SelectSeq([i \in 1..Len(exp) |-> IF chk[i] = "float" THEN <<exp[i].t, exp[i].le, tc.cells[i].b>> ELSE << >>], LAMBDA x : x # << >>)]

RECURSIVE BinCells(_, _, _, _, _, _)
\* walk columns k..n of a binary row; returns set of violations
BinCells(p, i, k, cols, exp, at) ==
  IF k > Len(cols) THEN (IF i = Len(p) + 1 THEN {} ELSE {V("C07", at, "binary row has trailing bytes"), V("C03", at, "malformed binary row (trailing bytes)")})
  ELSE LET nbit == k + 1   \* bit (k-1)+2 of the bitmap, bitmap starts at p[2]
           isnull == (p[2 + (nbit \div 8)] \div (2 ^ (nbit % 8))) % 2 = 1
           e == exp[k]
       IN IF isnull THEN
            (IF e.t = "null" THEN {} ELSE {V("C07", at, "NULL bit set for a non-NULL cell")}) \cup BinCells(p, i, k + 1, cols, exp, at)
          ELSE IF e.t = "null" THEN {V("C07", at, "NULL cell not marked in the bitmap")}
          ELSE LET c == BinCellAt(p, i, cols[k].ty, cols[k].fl) IN
            IF ~c.ok THEN {V("C07", at, "binary cell undecodable for its column type"), V("C03", at, "malformed binary row (cell undecodable)")}
            \* (a temporal value that a temporal column accepts must arrive as that value as well: a DATE column
            \* that takes a datetime may not drop a time of day or microseconds silently)
            ELSE (IF (Compat(e, cols[k].ty) = "carries" \/ (e.t \in {"dt", "date"} /\ cols[k].ty \in {7, 10, 12})) /\ ~BinMatch(c.d, e)
                  THEN {V(IF e.t = "int" THEN "C15" ELSE "C07", at, "binary value differs from the value written")}
                       \cup (IF e.t = "int" /\ ~InRange(MathOf(e.le, e.s), ColRange(cols[k].ty, cols[k].fl))
                             THEN {V("C07", at, "an integer the column cannot represent was accepted and encoded as something else")} ELSE {})
                  ELSE {})
                 \cup BinCells(p, c.next, k + 1, cols, exp, at)
\* the decoded column definitions are used for types/flags, exactly as a client does
BinRowCmp(p, dcols, exp, at) ==
  LET n == Len(dcols)
      bl == (n + 9) \div 8
  IN IF Len(p) < 1 + bl \/ p[1] # 0 THEN {V("C07", at, "binary row header/bitmap malformed")}
     ELSE IF Len(exp) # n THEN {V("C03", at, "binary row has a wrong number of cells")}
     ELSE (IF p[2] % 4 # 0 THEN {V("C07", at, "reserved bitmap bits set")} ELSE {})
          \cup (IF \E b \in (n + 2)..(8 * bl - 1) : (p[2 + (b \div 8)] \div (2 ^ (b % 8))) % 2 = 1
                THEN {V("C07", at, "bitmap bits beyond the last column set")} ELSE {})
          \cup BinCells(p, 2 + bl, 1, dcols, exp, at)

RECURSIVE RowsCmp(_, _, _, _, _, _, _)
RowsCmp(drows, erows, i, dcols, bin, at, acc) ==
  IF i > Len(drows) THEN acc
  ELSE IF bin THEN RowsCmp(drows, erows, i + 1, dcols, bin, at, [acc EXCEPT !.viol = @ \cup BinRowCmp(drows[i], dcols, erows[i], at)])
  ELSE LET r == TextRowCmp(drows[i], erows[i], at) IN
       RowsCmp(drows, erows, i + 1, dcols, bin, at, [viol |-> acc.viol \cup r.viol, floats |-> acc.floats \o r.floats])

\* compare one decoded unit d with expected unit e: [viol, floats]
UnitCmp(d, e, bin, at) ==
  IF d.k # e.k THEN [viol |-> {V("C03", at, "response unit kind differs: got " \o d.k \o ", expected " \o e.k)}, floats |-> << >>]
  ELSE IF e.k = "ok" THEN
     [viol |-> (IF d.rows # e.rows THEN {V("C14", at, "affected-row count differs")} ELSE {})
               \cup (IF d.id # e.id THEN {V("C14", at, "last-insert-id differs")} ELSE {}),
      floats |-> << >>]
  ELSE IF e.k = "err" THEN [viol |-> ErrCmp(d, e.kind, e.msg, at), floats |-> << >>]
  ELSE
     LET v0 == ColsCmp(d.cols, e.cols, at)
                \cup (IF d.term # e.term THEN {V("C03", at, "resultset terminator differs")} ELSE {})
                \cup (IF d.term = "err" /\ e.term = "err" THEN ErrCmp(d.err, e.kind, e.msg, at) ELSE {})
                \cup (IF Len(d.rows) # Len(e.rows) THEN {V("C03", at, "number of rows differs"),
                                                           V(IF bin THEN "C07" ELSE "C06", at, "the client decodes a different number of rows than the shim wrote")} ELSE {})
     IN IF Len(d.rows) # Len(e.rows) \/ Len(d.cols) # Len(e.cols) THEN [viol |-> v0, floats |-> << >>]
        ELSE LET r == RowsCmp(d.rows, e.rows, 1, d.cols, bin, at, [viol |-> {}, floats |-> << >>]) IN
             [viol |-> v0 \cup r.viol, floats |-> r.floats]

RECURSIVE UnitsCmp(_, _, _, _, _, _)
UnitsCmp(ds, es, i, bin, at, acc) ==
  IF i > Len(ds) \/ i > Len(es) THEN acc
  ELSE LET r == UnitCmp(ds[i], es[i], bin, at) IN
       UnitsCmp(ds, es, i + 1, bin, at, [viol |-> acc.viol \cup r.viol, floats |-> acc.floats \o r.floats])
\* a whole response against its denotation
\* an error the shim reported must reach the client as the ERR unit at the same position of the reply (C13)
ErrLost(ds, es) == \E i \in 1..Len(es) : (es[i].k = "err" \/ (es[i].k = "rs" /\ es[i].term = "err"))
                                         /\ (i > Len(ds) \/ ds[i].k # es[i].k \/ (es[i].k = "rs" /\ ds[i].term # "err"))
ResponseCmp(ds, es, bin, at) ==
  LET r == UnitsCmp(ds, es, 1, bin, at, [viol |-> {}, floats |-> << >>]) IN
  [viol |-> r.viol \cup (IF Len(ds) # Len(es) THEN {V("C03", at, "number of response units differs")} ELSE {})
                   \cup (IF ErrLost(ds, es) THEN {V("C13", at, "an error reported by the shim did not reach the client as part of this reply")} ELSE {}),
   floats |-> r.floats]

\* shape check for the rows of a response whose program did not complete (an emitted row must
\* still have the declared number of cells): text rows only need the cell count
RECURSIVE EmittedRowsOk(_, _, _)
EmittedRowsOk(u, bin, i) ==
  IF i > Len(u.rows) THEN TRUE
  ELSE LET p == u.rows[i] IN
       (IF bin THEN Len(p) >= 1 /\ p[1] = 0
        ELSE LET tc == TextCells(p, 1, << >>) IN tc.ok /\ Len(tc.cells) = Len(u.cols))
       /\ EmittedRowsOk(u, bin, i + 1)
=============================================================================
