SPECIFICATION Spec
CONSTANTS
  Ids = {1, 2}
  MaxHist = 4
  FlagConsumedWhenZero = TRUE
  ClearsLongData = FALSE
  RemoveOnClose = TRUE
  ReprepareFresh = TRUE
  ClearsOnlyOwn = TRUE
  KeepsEmptyLong = TRUE
INVARIANTS P_Registry P_Agree
VIEW view
CHECK_DEADLOCK FALSE
