-------------------------------- MODULE RLE --------------------------------
(***************************************************************************)
(* Run-length encoded byte strings: a sequence of runs <<byte, count>> in  *)
(* canonical form (count >= 1, adjacent runs differ).  This is what lets   *)
(* TLC evaluate the framing definitions with the real PMAX = 2^24-1 on     *)
(* 16-50 MiB messages: such a stream is a few dozen tuples.                *)
(* RPackets below is the same denotational framing as Packets.tla, over    *)
(* this representation; MC_RLE checks that the two agree (small PMAX).     *)
(***************************************************************************)
EXTENDS Bytes
CONSTANT PMAX

RECURSIVE RLen(_)
RLen(r) == IF r = << >> THEN 0 ELSE r[1][2] + RLen(Tail(r))

RCat(a, c) == IF a = << >> THEN c ELSE IF c = << >> THEN a
              ELSE IF a[Len(a)][1] = c[1][1]
                   THEN SubSeq(a, 1, Len(a) - 1) \o <<<<c[1][1], a[Len(a)][2] + c[1][2]>>>> \o Tail(c)
                   ELSE a \o c
RECURSIVE RCatAll(_)
RCatAll(ss) == IF ss = << >> THEN << >> ELSE RCat(ss[1], RCatAll(Tail(ss)))

RECURSIVE RTake(_, _)
RTake(r, k) == IF k <= 0 \/ r = << >> THEN << >>
               ELSE IF r[1][2] <= k THEN <<r[1]>> \o RTake(Tail(r), k - r[1][2])
               ELSE <<<<r[1][1], k>>>>
RECURSIVE RDrop(_, _)
RDrop(r, k) == IF k <= 0 \/ r = << >> THEN r
               ELSE IF r[1][2] <= k THEN RDrop(Tail(r), k - r[1][2])
               ELSE <<<<r[1][1], r[1][2] - k>>>> \o Tail(r)
RSub(r, i, n) == RTake(RDrop(r, i - 1), n)     \* n bytes from position i (1-based)

RECURSIVE RExpand(_)
RExpand(r) == IF r = << >> THEN << >> ELSE [j \in 1..r[1][2] |-> r[1][1]] \o RExpand(Tail(r))
RECURSIVE ToRunsFrom(_, _, _, _)
ToRunsFrom(s, i, b, n) == IF i > Len(s) THEN <<<<b, n>>>>
                          ELSE IF s[i] = b THEN ToRunsFrom(s, i + 1, b, n + 1)
                          ELSE <<<<b, n>>>> \o ToRunsFrom(s, i + 1, s[i], 1)
ToRuns(s) == IF s = << >> THEN << >> ELSE ToRunsFrom(s, 2, s[1], 1)
IsCanon(r) == /\ \A i \in 1..Len(r) : r[i][2] >= 1
              /\ \A i \in 1..(Len(r) - 1) : r[i][1] # r[i + 1][1]

\* ---- framing over RLE streams (mirror of Packets.tla) ----
RHasPkt(r) == LET n == RLen(r) IN
              n >= 4 /\ LET h == RExpand(RTake(r, 4)) IN n >= 4 + Le24(h, 1)
RECURSIVE RSplitFrom(_, _, _)
\* [pk |-> <<[off, seq, len, p]...>>, rest, off]  off = 0-based offset of the packet header in the stream
RSplitFrom(r, off, acc) ==
  IF RHasPkt(r)
  THEN LET h == RExpand(RTake(r, 4))
           n == Le24(h, 1)
       IN RSplitFrom(RDrop(r, 4 + n), off + 4 + n, Append(acc, [off |-> off, seq |-> h[4], len |-> n, p |-> RSub(r, 5, n)]))
  ELSE [pk |-> acc, rest |-> r, off |-> off]
RSplit(r) == RSplitFrom(r, 0, << >>)

RECURSIVE RJoinFrom(_, _, _, _)
RJoinFrom(pk, i, cur, msgs) ==
  IF i > Len(pk) THEN [msgs |-> msgs, used |-> i - 1 - (IF cur = << >> THEN 0 ELSE cur[1].n)]
  ELSE LET k == pk[i]
           m == IF cur = << >>
                THEN [p |-> k.p, len |-> k.len, seq0 |-> k.seq, seqN |-> k.seq, n |-> 1, consec |-> TRUE, off |-> k.off, sizes |-> <<k.len>>]
                ELSE [cur[1] EXCEPT !.p = RCat(@, k.p), !.len = @ + k.len, !.seqN = k.seq, !.n = @ + 1,
                                    !.consec = @ /\ k.seq = (cur[1].seqN + 1) % 256, !.sizes = Append(@, k.len)]
       IN IF k.len = PMAX THEN RJoinFrom(pk, i + 1, <<m>>, msgs)
          ELSE RJoinFrom(pk, i + 1, << >>, Append(msgs, m))
RJoin(pk) == RJoinFrom(pk, 1, << >>, << >>)

\* complete logical messages in stream r and the unconsumed tail
RMessages(r) ==
  LET sp == RSplit(r)
      j == RJoin(sp.pk)
      consumed == IF j.used < Len(sp.pk) THEN sp.pk[j.used + 1].off ELSE sp.off
  IN [msgs |-> j.msgs, rest |-> RDrop(r, consumed), npk |-> j.used]

\* conformant framing of message p (RLE) starting at sequence id seq
RHdr(n, seq) == ToRuns(<<n % 256, (n \div 256) % 256, (n \div 65536) % 256, seq>>)
RECURSIVE RFrame(_, _)
RFrame(p, seq) == IF RLen(p) >= PMAX
                  THEN RCatAll(<<RHdr(PMAX, seq), RTake(p, PMAX), RFrame(RDrop(p, PMAX), (seq + 1) % 256)>>)
                  ELSE RCat(RHdr(RLen(p), seq), p)

\* length-encoded integer (as MySQL writes it) for a length n < 2^31, as runs
RLenencInt(n) == ToRuns(IF n < 251 THEN <<n>>
                        ELSE IF n < 65536 THEN <<252, n % 256, n \div 256>>
                        ELSE IF n < 16777216 THEN <<253, n % 256, (n \div 256) % 256, n \div 65536>>
                        ELSE <<254, n % 256, (n \div 256) % 256, (n \div 65536) % 256, n \div 16777216, 0, 0, 0, 0>>)
RLenencStr(r) == RCat(RLenencInt(RLen(r)), r)
=============================================================================
