----------------------------- MODULE MC_Robust ------------------------------
(***************************************************************************)
(* Totality of the specification on arbitrary client bytes (C20) and a     *)
(* decision table for command routing (C02).                               *)
(*  - every byte string over a reduced alphabet up to MaxLen (packet       *)
(*    headers are drawn from it too) is split into messages, classified    *)
(*    and - for EXECUTE - decoded against every small registry entry; TLC  *)
(*    evaluating this without an evaluation error shows that the reference *)
(*    model the trace monitor uses is total (it never gets stuck where the *)
(*    real server has to answer or give up), and the outcome class is one  *)
(*    of the allowed ones                                                  *)
(*  - routing: texts on every decision boundary of Commands!Classify with  *)
(*    the callback / argument they must produce, written out by hand       *)
(***************************************************************************)
EXTENDS Commands, Packets, FiniteSets

CONSTANTS MaxLen
VARIABLE case
A == {0, 1, 2, 3, 4, 14, 22, 23, 24, 25, 255}
RECURSIVE Strings(_)
Strings(n) == IF n = 0 THEN {<< >>} ELSE LET S == Strings(n - 1) IN S \cup {Append(s, a) : s \in {t \in S : Len(t) = n - 1}, a \in A}

T(s) == s   \* texts below are written as byte tuples
Q(t) == <<3>> \o t
RouteTable == {
  [p |-> Q(<<83, 69, 76, 69, 67, 84, 32, 64, 64, 120>>), kind |-> "selvar", cb |-> "", arg |-> << >>],            \* SELECT @@x
  [p |-> Q(<<115, 101, 108, 101, 99, 116, 32, 64, 64>>), kind |-> "selvar", cb |-> "", arg |-> << >>],           \* select @@
  [p |-> Q(<<83, 69, 76, 69, 67, 84, 32, 64, 120>>), kind |-> "query", cb |-> "on_query", arg |-> <<83, 69, 76, 69, 67, 84, 32, 64, 120>>],   \* SELECT @x
  [p |-> Q(<<83, 101, 108, 101, 99, 116, 32, 64, 64>>), kind |-> "query", cb |-> "on_query", arg |-> <<83, 101, 108, 101, 99, 116, 32, 64, 64>>], \* Select @@
  [p |-> Q(<<85, 83, 69, 32, 100, 98>>), kind |-> "use", cb |-> "on_init", arg |-> <<100, 98>>],                   \* USE db
  [p |-> Q(<<117, 115, 101, 32, 96, 100, 98, 96, 59>>), kind |-> "use", cb |-> "on_init", arg |-> <<100, 98>>],     \* use `db`;
  [p |-> Q(<<85, 83, 69, 32, 32, 100, 98, 59, 32>>), kind |-> "use", cb |-> "on_init", arg |-> <<100, 98>>],        \* USE  db;_
  [p |-> Q(<<117, 115, 101>>), kind |-> "query", cb |-> "on_query", arg |-> <<117, 115, 101>>],                     \* use
  [p |-> Q(<<117, 115, 101, 100, 98>>), kind |-> "query", cb |-> "on_query", arg |-> <<117, 115, 101, 100, 98>>],   \* usedb
  [p |-> Q(<< >>), kind |-> "query", cb |-> "on_query", arg |-> << >>],
  [p |-> <<22, 85, 83, 69, 32, 120>>, kind |-> "prepare", cb |-> "on_prepare", arg |-> <<85, 83, 69, 32, 120>>],    \* PREPARE "USE x" verbatim
  [p |-> <<2, 96, 100, 96, 59>>, kind |-> "initdb", cb |-> "on_init", arg |-> <<96, 100, 96, 59>>],                 \* INIT_DB verbatim, no trimming
  [p |-> <<25, 7, 0, 0, 0>>, kind |-> "close", cb |-> "on_close", arg |-> <<7, 0, 0, 0>>],
  [p |-> <<23, 255, 255, 255, 255, 0, 1, 0, 0, 0>>, kind |-> "execute", cb |-> "on_execute", arg |-> <<255, 255, 255, 255>>],
  [p |-> <<24, 1, 0, 0, 0, 2, 0, 9>>, kind |-> "longdata", cb |-> "", arg |-> <<1, 0, 0, 0>>],
  [p |-> <<14>>, kind |-> "ping", cb |-> "", arg |-> << >>],
  [p |-> <<1>>, kind |-> "quit", cb |-> "", arg |-> << >>],
  [p |-> <<4, 116, 0>>, kind |-> "fieldlist", cb |-> "", arg |-> << >>],
  [p |-> <<5>>, kind |-> "bad", cb |-> "", arg |-> << >>],
  [p |-> << >>, kind |-> "bad", cb |-> "", arg |-> << >>],
  [p |-> <<25, 7, 0>>, kind |-> "bad", cb |-> "", arg |-> << >>],
  [p |-> <<23, 1, 0, 0, 0>>, kind |-> "bad", cb |-> "", arg |-> << >>] }
FatalTable == { Q(<<255>>), Q(<<85, 83, 69, 32, 192, 128>>), <<22, 237, 160, 128>>, <<2, 128>> }   \* invalid UTF-8 never reaches the shim

Cases == {[k |-> "bytes", s |-> s] : s \in Strings(MaxLen)} \cup {[k |-> "route", r |-> r] : r \in RouteTable} \cup {[k |-> "fatal", p |-> p] : p \in FatalTable}
Init == case \in Cases
Next == UNCHANGED case
Spec == Init /\ [][Next]_case

Kinds == {"query", "selvar", "use", "prepare", "execute", "longdata", "close", "initdb", "fieldlist", "ping", "quit", "bad"}
Regs == {[np |-> 0, types |-> << >>], [np |-> 1, types |-> << >>], [np |-> 1, types |-> <<[ty |-> 1, uns |-> FALSE]>>],
         [np |-> 2, types |-> <<[ty |-> 253, uns |-> FALSE], [ty |-> 8, uns |-> TRUE]>>]}
Holds(c) ==
  CASE c.k = "bytes" ->
         LET m == Messages(c.s) IN
         /\ \A i \in 1..Len(m.msgs) :
              LET cl == Classify(m.msgs[i].p) IN
              /\ cl.kind \in Kinds
              /\ (cl.kind = "execute" => \A r \in Regs : ExecDecode(m.msgs[i].p, r.np, r.types, [x \in {} |-> << >>]).ok \in BOOLEAN)
              /\ DecHandshakeResponse(m.msgs[i].p, FALSE).ok \in BOOLEAN /\ DecHandshakeResponse(m.msgs[i].p, TRUE).ok \in BOOLEAN
         /\ Len(m.rest) <= Len(c.s)
    [] c.k = "route" -> LET cl == Classify(c.r.p) IN cl.kind = c.r.kind /\ cl.cb = c.r.cb /\ (cl.cb # "" /\ cl.judge => cl.arg = c.r.arg) /\ ~cl.fatal
                                                       /\ (c.r.kind = "longdata" => cl.arg = c.r.arg)
    [] c.k = "fatal" -> Classify(c.p).fatal /\ Classify(c.p).cb = ""
    [] OTHER -> FALSE
P_Total == Holds(case)
=============================================================================
