SPECIFICATION Spec
CONSTANTS
  PMAX = 5
  MaxMsgs = 2
  MaxLen = 12
  HeaderCountsTowardsLimit = FALSE
  EmitsEmptyCloser = TRUE
INVARIANTS P_C04 P_C05
VIEW view
CHECK_DEADLOCK FALSE
