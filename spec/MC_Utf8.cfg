SPECIFICATION Spec
INVARIANT Same
CHECK_DEADLOCK FALSE
