----------------------------- MODULE Commands ------------------------------
(***************************************************************************)
(* What each client command means (C02), and the client-side encoding /    *)
(* server-side decoding of COM_STMT_EXECUTE parameter blocks (C08, C16,    *)
(* C17), stated from the protocol.                                         *)
(***************************************************************************)
EXTENDS Codec

StartsWith(s, pre) == Len(s) >= Len(pre) /\ SubSeq(s, 1, Len(pre)) = pre
SELVAR_U == <<83, 69, 76, 69, 67, 84, 32, 64, 64>>      \* "SELECT @@"
SELVAR_L == <<115, 101, 108, 101, 99, 116, 32, 64, 64>> \* "select @@"
USE_U == <<85, 83, 69, 32>>                              \* "USE "
USE_L == <<117, 115, 101, 32>>                           \* "use "
IsWs(b) == b \in {32, 9, 10, 11, 12, 13}

RECURSIVE SkipWsL(_, _)
SkipWsL(s, i) == IF i <= Len(s) /\ IsWs(s[i]) THEN SkipWsL(s, i + 1) ELSE i
RECURSIVE SkipWsR(_, _)
SkipWsR(s, j) == IF j >= 1 /\ IsWs(s[j]) THEN SkipWsR(s, j - 1) ELSE j
Trim(s) == LET i == SkipWsL(s, 1) j == SkipWsR(s, Len(s)) IN IF i > j THEN << >> ELSE SubSeq(s, i, j)

\* The database name carried by a `USE` statement, for the spellings clients emit:
\*   USE <ws>* ( name | `name` ) ;? <ws>*        name without whitespace, backtick or semicolon
\* [judge |-> spelling is inside that set, name |-> bare name]
UseName(rest) ==
  LET t == Trim(rest)
      t2 == IF Len(t) > 0 /\ t[Len(t)] = 59 THEN SubSeq(t, 1, Len(t) - 1) ELSE t
      t3 == IF Len(t2) >= 2 /\ t2[1] = 96 /\ t2[Len(t2)] = 96 THEN SubSeq(t2, 2, Len(t2) - 1) ELSE t2
      clean == \A i \in 1..Len(t3) : ~IsWs(t3[i]) /\ t3[i] # 96 /\ t3[i] # 59 /\ t3[i] < 128
  IN [judge |-> clean /\ Len(t3) > 0, name |-> t3]

\* classification of a command payload p.
\*  kind: query | selvar | use | prepare | execute | longdata | close | initdb | fieldlist | ping | quit | bad
\*  cb:   callback that must be invoked ("" = none), arg: its argument, judge: is arg judged exactly
\*  reply: does the client expect a response;  fatal: the server must give up (error return) without callback
NoCb(kind, reply) == [kind |-> kind, cb |-> "", arg |-> << >>, judge |-> FALSE, reply |-> reply, fatal |-> FALSE]
Classify(p) ==
  IF Len(p) = 0 THEN NoCb("bad", FALSE)
  ELSE LET c == p[1] body == Tail(p) IN
    IF c = 3 THEN
      IF StartsWith(body, SELVAR_U) \/ StartsWith(body, SELVAR_L) THEN NoCb("selvar", TRUE)
      ELSE IF StartsWith(body, USE_U) \/ StartsWith(body, USE_L) THEN
        (IF ~IsUtf8(body) THEN [NoCb("use", FALSE) EXCEPT !.fatal = TRUE]
         ELSE LET u == UseName(From(body, 5)) IN
              [kind |-> "use", cb |-> "on_init", arg |-> u.name, judge |-> u.judge, reply |-> TRUE, fatal |-> FALSE])
      ELSE IF ~IsUtf8(body) THEN [NoCb("query", FALSE) EXCEPT !.fatal = TRUE]
      ELSE [kind |-> "query", cb |-> "on_query", arg |-> body, judge |-> TRUE, reply |-> TRUE, fatal |-> FALSE]
    ELSE IF c = 22 THEN
      (IF ~IsUtf8(body) THEN [NoCb("prepare", FALSE) EXCEPT !.fatal = TRUE]
       ELSE [kind |-> "prepare", cb |-> "on_prepare", arg |-> body, judge |-> TRUE, reply |-> TRUE, fatal |-> FALSE])
    ELSE IF c = 2 THEN
      (IF ~IsUtf8(body) THEN [NoCb("initdb", FALSE) EXCEPT !.fatal = TRUE]
       ELSE [kind |-> "initdb", cb |-> "on_init", arg |-> body, judge |-> TRUE, reply |-> TRUE, fatal |-> FALSE])
    ELSE IF c = 23 THEN
      (IF Len(p) < 10 THEN NoCb("bad", FALSE)
       ELSE [kind |-> "execute", cb |-> "on_execute", arg |-> Sub(p, 2, 4), judge |-> TRUE, reply |-> TRUE, fatal |-> FALSE])
    ELSE IF c = 24 THEN
      (IF Len(p) < 7 THEN NoCb("bad", FALSE)
       ELSE [NoCb("longdata", FALSE) EXCEPT !.arg = Sub(p, 2, 4)])
    ELSE IF c = 25 THEN
      (IF Len(p) < 5 THEN NoCb("bad", FALSE)
       ELSE [kind |-> "close", cb |-> "on_close", arg |-> Sub(p, 2, 4), judge |-> TRUE, reply |-> FALSE, fatal |-> FALSE])
    ELSE IF c = 4 THEN NoCb("fieldlist", TRUE)
    ELSE IF c = 14 THEN NoCb("ping", TRUE)
    ELSE IF c = 1 THEN NoCb("quit", FALSE)
    ELSE NoCb("bad", FALSE)

\* ---- client handshake response ----
\* [ok, ssl, user, hasuser]
CLIENT_PROTOCOL_41 == 512
CLIENT_SSL == 2048
HasCap(lo, bit) == (lo \div bit) % 2 = 1
DecHandshakeResponse(p, afterTls) ==
  IF Len(p) < 2 THEN [ok |-> FALSE]
  ELSE LET lo == Le16(p, 1) IN
    IF HasCap(lo, CLIENT_PROTOCOL_41) THEN
      IF Len(p) < 32 THEN [ok |-> FALSE]
      ELSE IF HasCap(lo, CLIENT_SSL) /\ ~afterTls THEN [ok |-> TRUE, ssl |-> TRUE, hasuser |-> FALSE, user |-> << >>]
      ELSE LET z == FindByte(p, 0, 33) IN
           IF z = 0 THEN [ok |-> FALSE]
           ELSE [ok |-> TRUE, ssl |-> HasCap(lo, CLIENT_SSL), hasuser |-> TRUE, user |-> SubSeq(p, 33, z - 1)]
    ELSE
      IF Len(p) < 5 THEN [ok |-> FALSE]
      ELSE LET z == FindByte(p, 0, 6) IN
           IF z = 0 THEN [ok |-> FALSE]
           ELSE [ok |-> TRUE, ssl |-> HasCap(lo, CLIENT_SSL), hasuser |-> TRUE, user |-> SubSeq(p, 6, z - 1)]

\* ---- COM_STMT_EXECUTE parameter block ----
\* bound type = [ty, uns]
ParamTypeKnown(ty) == ty \in IntCols \cup StrCols \cup DateCols \cup {4, 5, 6, 11}
PBad == [ok |-> FALSE]
\* inline value of bound type bt at position i of p: [ok, next, inner]
ParamValAt(p, i, bt) ==
  LET ty == bt.ty IN
  IF ty \in IntCols THEN
    LET w == IntWidth(ty) IN
    IF i + w - 1 > Len(p) THEN PBad
    ELSE LET raw == Sub(p, i, w) IN
         [ok |-> TRUE, next |-> i + w,
          inner |-> IF bt.uns THEN [t |-> "uint", le |-> Pad8(raw)] ELSE [t |-> "int", le |-> SExt8(raw)]]
  ELSE IF ty = 4 THEN (IF i + 3 > Len(p) THEN PBad ELSE [ok |-> TRUE, next |-> i + 4, inner |-> [t |-> "double", le |-> F32ToF64(Sub(p, i, 4)), raw |-> Sub(p, i, 4)]])
  ELSE IF ty = 5 THEN (IF i + 7 > Len(p) THEN PBad ELSE [ok |-> TRUE, next |-> i + 8, inner |-> [t |-> "double", le |-> Sub(p, i, 8), raw |-> Sub(p, i, 8)]])
  ELSE IF ty \in StrCols THEN
    LET s == LenencStrAt(p, i) IN
    IF ~s.ok \/ s.null THEN PBad ELSE [ok |-> TRUE, next |-> s.next, inner |-> [t |-> "bytes", b |-> s.b]]
  ELSE IF ty \in DateCols \cup {11} THEN
    IF i > Len(p) THEN PBad
    ELSE LET n == p[i] IN
      IF i + n > Len(p) THEN PBad
      ELSE [ok |-> TRUE, next |-> i + 1 + n,
            inner |-> [t |-> IF ty = 11 THEN "time" ELSE IF ty = 10 THEN "date" ELSE "datetime", b |-> Sub(p, i + 1, n)]]
  ELSE IF ty = 6 THEN [ok |-> TRUE, next |-> i, inner |-> [t |-> "null"]]
  ELSE PBad

RECURSIVE ParamVals(_, _, _, _, _, _, _)
\* values k..np: nullmap at p[nm..], long = function param index -> bytes (domain = params with long data)
ParamVals(p, i, k, np, types, nm, long) ==
  IF k > np THEN [ok |-> TRUE, vals |-> << >>, next |-> i]
  ELSE LET bt == types[k]
           isnull == (p[nm + ((k - 1) \div 8)] \div (2 ^ ((k - 1) % 8))) % 2 = 1
       IN IF isnull THEN
            LET r == ParamVals(p, i, k + 1, np, types, nm, long) IN
            IF ~r.ok THEN r ELSE [r EXCEPT !.vals = <<[ct |-> bt.ty, inner |-> [t |-> "null"]]>> \o @]
          ELSE IF (k - 1) \in DOMAIN long THEN
            LET r == ParamVals(p, i, k + 1, np, types, nm, long) IN
            IF ~r.ok THEN r ELSE [r EXCEPT !.vals = <<[ct |-> bt.ty, inner |-> [t |-> "bytes", b |-> long[k - 1]]]>> \o @]
          ELSE LET v == ParamValAt(p, i, bt) IN
            IF ~v.ok THEN PBad
            ELSE LET r == ParamVals(p, v.next, k + 1, np, types, nm, long) IN
                 IF ~r.ok THEN r ELSE [r EXCEPT !.vals = <<[ct |-> bt.ty, inner |-> v.inner]>> \o @]

RECURSIVE TypesAt(_, _, _)
TypesAt(p, i, n) == IF n = 0 THEN << >> ELSE <<[ty |-> p[i], uns |-> p[i + 1] >= 128]>> \o TypesAt(p, i + 2, n - 1)

\* Decode the execute payload p (starting with the 0x17 command byte) for a statement with np
\* parameters, previously bound types `stored` (<< >> if none) and pending long data `long`.
\* [ok, rebind, types, vals, exact]   ok = FALSE: the block is not a well-formed one for this statement
ExecDecode(p, np, stored, long) ==
  IF np = 0 THEN [ok |-> TRUE, rebind |-> FALSE, types |-> stored, vals |-> << >>, exact |-> Len(p) = 10]
  ELSE LET nm == 11
           nml == (np + 7) \div 8
           fl == nm + nml
       IN IF fl > Len(p) THEN PBad
          ELSE LET rebind == p[fl] # 0 IN
            IF rebind /\ fl + 2 * np > Len(p) THEN PBad
            ELSE LET types == IF rebind THEN TypesAt(p, fl + 1, np) ELSE stored
                     vstart == IF rebind THEN fl + 1 + 2 * np ELSE fl + 1
                 IN IF Len(types) # np \/ \E k \in 1..np : ~ParamTypeKnown(types[k].ty) THEN PBad
                    ELSE LET r == ParamVals(p, vstart, 1, np, types, nm, long) IN
                         IF ~r.ok THEN PBad
                         ELSE [ok |-> TRUE, rebind |-> rebind, types |-> types, vals |-> r.vals, exact |-> r.next = Len(p) + 1]

\* ---- expected result of the documented Into<T> conversions (C08) ----
IsLeap(y) == (y % 4 = 0 /\ y % 100 # 0) \/ y % 400 = 0
DaysIn(y, m) == IF m \in {1, 3, 5, 7, 8, 10, 12} THEN 31 ELSE IF m \in {4, 6, 9, 11} THEN 30 ELSE IF IsLeap(y) THEN 29 ELSE 28
ValidDate(y, m, d) == y <= 9999 /\ m >= 1 /\ m <= 12 /\ d >= 1 /\ d <= DaysIn(y, m)
Le32Small(b, i) == b[i] + 256 * b[i + 1] + 65536 * b[i + 2]   \* requires b[i+3] = 0
\* [judge, c]  judge = the target Rust type can represent the value, c = expected `conv` record
ConvExpected(ct, inner) ==
  IF inner.t \in {"int", "uint"} THEN [judge |-> TRUE, c |-> [t |-> "int", le |-> inner.le]]
  ELSE IF inner.t = "double" THEN [judge |-> TRUE, c |-> [t |-> IF ct = 4 THEN "f32" ELSE "f64", le |-> inner.raw]]
  ELSE IF inner.t = "bytes" THEN [judge |-> TRUE, c |-> [t |-> "bytes", b |-> inner.b]]
  ELSE IF inner.t = "date" THEN
    LET b == inner.b IN
    IF Len(b) = 4 /\ ValidDate(Le16(b, 1), b[3], b[4])
    THEN [judge |-> TRUE, c |-> [t |-> "date", v |-> <<Le16(b, 1), b[3], b[4]>>]] ELSE [judge |-> FALSE]
  ELSE IF inner.t = "datetime" THEN
    LET b == inner.b n == Len(b) IN
    IF n \in {4, 7, 11} /\ ValidDate(Le16(b, 1), b[3], b[4])
       /\ (n >= 7 => b[5] < 24 /\ b[6] < 60 /\ b[7] < 60)
       /\ (n = 11 => b[11] = 0 /\ Le32Small(b, 8) < 1000000)
    THEN [judge |-> TRUE, c |-> [t |-> "datetime",
            v |-> <<Le16(b, 1), b[3], b[4], IF n >= 7 THEN b[5] ELSE 0, IF n >= 7 THEN b[6] ELSE 0,
                    IF n >= 7 THEN b[7] ELSE 0, IF n = 11 THEN Le32Small(b, 8) ELSE 0>>]]
    ELSE [judge |-> FALSE]
  ELSE IF inner.t = "time" THEN
    LET b == inner.b n == Len(b) IN
    IF n = 0 THEN [judge |-> TRUE, c |-> [t |-> "time", v |-> <<0, 0>>]]
    ELSE IF n \in {8, 12} /\ b[1] = 0 /\ b[5] = 0 /\ b[4] = 0 /\ b[3] < 64 /\ b[6] < 24 /\ b[7] < 60 /\ b[8] < 60
            /\ (n = 12 => b[12] = 0 /\ Le32Small(b, 9) < 1000000)
    THEN [judge |-> TRUE, c |-> [t |-> "time",
            v |-> <<(b[2] + 256 * b[3]) * 86400 + b[6] * 3600 + b[7] * 60 + b[8], IF n = 12 THEN Le32Small(b, 9) ELSE 0>>]]
    ELSE [judge |-> FALSE]
  ELSE [judge |-> FALSE]
=============================================================================
