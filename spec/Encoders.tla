------------------------------ MODULE Encoders ------------------------------
(***************************************************************************)
(* Server-side packet payload layouts (what writers.rs / encode.rs emit),  *)
(* used by the operational models.  Together with ClientDecoder/Codec they *)
(* satisfy Decode(Encode(x)) = x, which MC_Codec checks on boundary sets.  *)
(***************************************************************************)
EXTENDS WriterSem

Le16B(n) == <<n % 256, (n \div 256) % 256>>
LenStr(b) == LenencEnc(IntU64(Len(b))) \o b

OkPkt(rows, id, status) == <<0>> \o LenencEnc(rows) \o LenencEnc(id) \o Le16B(status) \o <<0, 0>>
EofPkt(status) == <<254, 0, 0>> \o Le16B(status)
ErrPkt(kind, msg) == <<255>> \o Le16B(ErrRef[kind].code) \o <<35>> \o ErrRef[kind].state \o msg
ColCountPkt(n) == LenencEnc(IntU64(n))
\* ColumnDefinition41 as write_column_definitions lays it out (c = [t, n, ty, fl])
ColDefPkt(c, fieldlist) ==
  LenStr(<<100, 101, 102>>) \o LenStr(<< >>) \o LenStr(c.t) \o LenStr(<< >>) \o LenStr(c.n) \o LenStr(<< >>)
  \o <<12>> \o <<33, 0>> \o <<0, 4, 0, 0>> \o <<c.ty>> \o Le16B(c.fl) \o <<0>> \o <<0, 0>>
  \o (IF fieldlist THEN <<251>> ELSE << >>)
PrepareOkPkt(id, ncols, nparams) == <<0>> \o id \o Le16B(ncols) \o Le16B(nparams) \o <<0>> \o <<0, 0>>

\* ---- values ----
RECURSIVE DecDigits(_)
\* decimal digits of a small natural
DecDigits(n) == IF n < 10 THEN <<48 + n>> ELSE DecDigits(n \div 10) \o <<48 + (n % 10)>>
Pad2(n) == IF n < 10 THEN <<48>> \o DecDigits(n) ELSE DecDigits(n)
Pad4(n) == IF n < 10 THEN <<48, 48, 48>> \o DecDigits(n) ELSE IF n < 100 THEN <<48, 48>> \o DecDigits(n)
           ELSE IF n < 1000 THEN <<48>> \o DecDigits(n) ELSE DecDigits(n)
Pad6(n) == IF n < 10 THEN <<48, 48, 48, 48, 48>> \o DecDigits(n) ELSE IF n < 100 THEN <<48, 48, 48, 48>> \o DecDigits(n)
           ELSE IF n < 1000 THEN <<48, 48, 48>> \o DecDigits(n) ELSE IF n < 10000 THEN <<48, 48>> \o DecDigits(n)
           ELSE IF n < 100000 THEN <<48>> \o DecDigits(n) ELSE DecDigits(n)
\* text form of a canonical value with a small magnitude (model values only)
TextOf(c) ==
  IF c.t = "null" THEN << >>
  ELSE IF c.t = "int" THEN (LET m == MathOf(c.le, c.s) IN (IF m.neg THEN <<45>> ELSE << >>) \o DecDigits(U64Int(m.mag)))
  ELSE IF c.t = "bytes" THEN c.b
  ELSE IF c.t = "date" THEN Pad4(c.v[1]) \o <<45>> \o Pad2(c.v[2]) \o <<45>> \o Pad2(c.v[3])
  ELSE IF c.t = "dt" THEN Pad4(c.v[1]) \o <<45>> \o Pad2(c.v[2]) \o <<45>> \o Pad2(c.v[3]) \o <<32>> \o Pad2(c.v[4]) \o <<58>> \o Pad2(c.v[5]) \o <<58>> \o Pad2(c.v[6])
                          \o (IF c.v[7] # 0 THEN <<46>> \o Pad6(c.v[7]) ELSE << >>)
  ELSE IF c.t = "time" THEN Pad2(c.v[1] \div 3600) \o <<58>> \o Pad2((c.v[1] % 3600) \div 60) \o <<58>> \o Pad2(c.v[1] % 60)
                            \o (IF c.v[2] # 0 THEN <<46>> \o Pad6(c.v[2]) ELSE << >>)
  ELSE << >>
TextCellEnc(c) == IF c.t = "null" THEN <<251>> ELSE LenStr(TextOf(c))
RECURSIVE TextRowPkt(_, _)
TextRowPkt(cells, i) == IF i > Len(cells) THEN << >> ELSE TextCellEnc(cells[i]) \o TextRowPkt(cells, i + 1)

\* binary value of canonical c for column type ty / flags fl (only the "carries" pairs)
BinValEnc(c, ty, fl) ==
  IF c.t = "int" THEN SubSeq(c.le, 1, IntWidth(ty))
  ELSE IF c.t = "f32" THEN (IF ty = 4 THEN c.le ELSE F32ToF64(c.le))
  ELSE IF c.t = "f64" THEN c.le
  ELSE IF c.t = "bytes" THEN LenStr(c.b)
  ELSE IF c.t = "date" THEN <<4>> \o Le16B(c.v[1]) \o <<c.v[2], c.v[3]>>
  ELSE IF c.t = "dt" THEN (IF c.v[7] # 0 THEN <<11>> ELSE <<7>>) \o Le16B(c.v[1]) \o <<c.v[2], c.v[3], c.v[4], c.v[5], c.v[6]>>
                          \o (IF c.v[7] # 0 THEN <<c.v[7] % 256, (c.v[7] \div 256) % 256, (c.v[7] \div 65536) % 256, 0>> ELSE << >>)
  ELSE IF c.t = "time" THEN
     (IF c.v[1] = 0 /\ c.v[2] = 0 THEN <<0>>
      ELSE (IF c.v[2] # 0 THEN <<12>> ELSE <<8>>) \o <<0>> \o <<(c.v[1] \div 86400) % 256, (c.v[1] \div 86400) \div 256, 0, 0>>
           \o <<(c.v[1] % 86400) \div 3600, (c.v[1] % 3600) \div 60, c.v[1] % 60>>
           \o (IF c.v[2] # 0 THEN <<c.v[2] % 256, (c.v[2] \div 256) % 256, (c.v[2] \div 65536) % 256, 0>> ELSE << >>))
  ELSE << >>
RECURSIVE BinBitmapByte(_, _, _)
BinBitmapByte(cells, byte, bit) ==
  IF bit > 7 THEN 0
  ELSE LET pos == byte * 8 + bit - 2 IN
       (IF pos >= 0 /\ pos < Len(cells) /\ cells[pos + 1].t = "null" THEN 2 ^ bit ELSE 0) + BinBitmapByte(cells, byte, bit + 1)
RECURSIVE BinVals(_, _, _)
BinVals(cells, cols, i) == IF i > Len(cells) THEN << >>
                           ELSE (IF cells[i].t = "null" THEN << >> ELSE BinValEnc(cells[i], cols[i].ty, cols[i].fl)) \o BinVals(cells, cols, i + 1)
BinRowPkt(cells, cols) ==
  <<0>> \o [b \in 1..((Len(cols) + 9) \div 8) |-> BinBitmapByte(cells, b - 1, 0)] \o BinVals(cells, cols, 1)
=============================================================================
