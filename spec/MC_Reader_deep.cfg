SPECIFICATION Spec
CONSTANTS
  PMAX = 3
  MaxCmds = 3
  MaxLen = 8
  Truncate = FALSE
  NoDrain = FALSE
  StaleRemaining = FALSE
  MinBuf = 4
  SaturatedSkipsParse = FALSE
  EofIgnoresRest = FALSE
INVARIANTS P_C01 P_C12 P_C19
VIEW view
CHECK_DEADLOCK FALSE
