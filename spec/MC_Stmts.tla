------------------------------ MODULE MC_Stmts ------------------------------
(***************************************************************************)
(* Operational model of the prepared-statement registry (lib.rs `stmts`,   *)
(* resultset.rs StatementMetaWriter::reply, params.rs Params::next):       *)
(*   stmts : id -> [live, np, bt (bound types), long (pending long data)]  *)
(* driven by a conformant client that remembers the types it bound, over   *)
(* byte-exact COM_STMT_EXECUTE payloads.  Explored for ALL histories of    *)
(* prepare(ok|error) / execute(rebind|reuse) / long data / close up to a   *)
(* bound.  Properties:                                                     *)
(*  (C10) an id is executable exactly between reply and close; unknown ids *)
(*        end the connection without a callback; re-prepare starts afresh  *)
(*  (C16) reuse executions are decoded with the types bound last for that  *)
(*        statement                                                        *)
(*  (C17) long data = concatenation in order, delivered once, never leaks  *)
(*  (C08) the shim sees exactly Commands!ExecDecode of the bytes sent      *)
(* The reference is the specification-level registry (`ref`) used by the   *)
(* trace monitor; each deviation constant reproduces a realistic defect    *)
(* (two of them, ClearsOnlyOwn and KeepsEmptyLong, are seeded defects of   *)
(* round 5 turned into deviations)                                         *)
(* and must make TLC report a violation (MCdev_Stmts_*.cfg).               *)
(***************************************************************************)
EXTENDS Commands, FiniteSets, Json

CONSTANTS Ids, MaxHist,
          FlagConsumedWhenZero,   \* FALSE: the pinned params.rs defect
          ClearsLongData,         \* FALSE: long_data.clear() forgotten
          RemoveOnClose,          \* FALSE: stmts.remove forgotten
          ReprepareFresh,         \* FALSE: re-prepare keeps bound types / long data
          ClearsOnlyOwn,          \* FALSE: an execution clears the pending long data of EVERY statement
          KeepsEmptyLong          \* FALSE: an empty long-data chunk does not mark its parameter as long data

VARIABLES stmts, ref, cli, nhist, lastcb, result, viol, hist
vars == <<stmts, ref, cli, nhist, lastcb, result, viol, hist>>
view == <<stmts, ref, cli, nhist, lastcb, result, viol>>

AllIds == Ids \cup {9}
NoLongF == [x \in {} |-> << >>]
Dead == [live |-> FALSE, np |-> 0, bt |-> << >>, long |-> NoLongF]
CDead == [live |-> FALSE, np |-> 0, types |-> << >>]
IdB(i) == <<i, 0, 0, 0>>

TYPES == {1, 8, 253}
TyRec(t, u) == [ty |-> t, uns |-> u]
InlineOf(t) == IF t = 1 THEN <<5>> ELSE IF t = 8 THEN <<1, 2, 3, 4, 5, 6, 7, 8>> ELSE <<2, 97, 98>>

\* ---- client-side encoding of COM_STMT_EXECUTE ----
RECURSIVE Cat(_)
Cat(ss) == IF ss = << >> THEN << >> ELSE Head(ss) \o Cat(Tail(ss))
NullByte(nulls, b) == LET S == {k \in 1..Len(nulls) : nulls[k] /\ (k - 1) \div 8 = b} IN
                      IF S = {} THEN 0 ELSE LET RECURSIVE Sum(_) Sum(T) == IF T = {} THEN 0 ELSE LET x == CHOOSE y \in T : TRUE IN 2 ^ ((x - 1) % 8) + Sum(T \ {x}) IN Sum(S)
ExecPayload(id, np, rebind, types, nulls, haslong) ==
  <<23>> \o IdB(id) \o <<0, 1, 0, 0, 0>>
  \o (IF np = 0 THEN << >>
      ELSE [b \in 1..((np + 7) \div 8) |-> NullByte(nulls, b - 1)]
           \o (IF rebind THEN <<1>> \o Cat([k \in 1..np |-> <<types[k].ty, IF types[k].uns THEN 128 ELSE 0>>]) ELSE <<0>>)
           \o Cat([k \in 1..np |-> IF nulls[k] \/ haslong[k] THEN << >> ELSE InlineOf(types[k].ty)]))

\* ---- server-side decoding, transcribed from params.rs (Params::next) ----
RECURSIVE SrvVals(_, _, _, _, _, _)
SrvVals(input, k, np, bt, nullmap, long) ==
  IF k > np \/ k > Len(bt) THEN << >>
  ELSE IF (k - 1) \div 8 + 1 > Len(nullmap) THEN << >>
  ELSE IF (nullmap[(k - 1) \div 8 + 1] \div (2 ^ ((k - 1) % 8))) % 2 = 1 THEN
       <<[ct |-> bt[k].ty, inner |-> [t |-> "null"]]>> \o SrvVals(input, k + 1, np, bt, nullmap, long)
  ELSE IF (k - 1) \in DOMAIN long THEN
       <<[ct |-> bt[k].ty, inner |-> [t |-> "bytes", b |-> long[k - 1]]]>> \o SrvVals(input, k + 1, np, bt, nullmap, long)
  ELSE LET v == ParamValAt(input, 1, bt[k]) IN     \* ValueInner::parse_from for this type
       IF ~v.ok THEN << >>
       ELSE <<[ct |-> bt[k].ty, inner |-> v.inner]>> \o SrvVals(From(input, v.next), k + 1, np, bt, nullmap, long)
SrvDecode(p, e) ==
  LET input == From(p, 11)
      nml == (e.np + 7) \div 8
  IN IF Len(input) < nml THEN [vals |-> << >>, bt |-> e.bt]
     ELSE LET nullmap == SubSeq(input, 1, nml)
              rest == From(input, nml + 1)
          IN IF rest # << >> /\ rest[1] # 0 THEN
               (IF Len(rest) - 1 < 2 * e.np THEN [vals |-> << >>, bt |-> e.bt]
                ELSE LET bt == TypesAt(rest, 2, e.np) IN
                     [vals |-> SrvVals(From(rest, 2 + 2 * e.np), 1, e.np, bt, nullmap, e.long), bt |-> bt])
             ELSE LET input2 == IF rest = << >> THEN rest ELSE IF FlagConsumedWhenZero THEN Tail(rest) ELSE rest IN
                  [vals |-> SrvVals(input2, 1, e.np, e.bt, nullmap, e.long), bt |-> e.bt]

Init == /\ stmts = [i \in AllIds |-> Dead] /\ ref = [i \in AllIds |-> Dead] /\ cli = [i \in AllIds |-> CDead]
        /\ nhist = 0 /\ lastcb = [k |-> "none"] /\ result = "running" /\ viol = {} /\ hist = << >>
Tick(h) == nhist < MaxHist /\ result = "running" /\ nhist' = nhist + 1 /\ hist' = Append(hist, h)

PrepareOk(id, np) ==
  /\ Tick([op |-> "prepare", id |-> id, np |-> np]) /\ id \in Ids
  /\ stmts' = [stmts EXCEPT ![id] = IF ReprepareFresh \/ ~stmts[id].live THEN [live |-> TRUE, np |-> np, bt |-> << >>, long |-> NoLongF]
                                    ELSE [@ EXCEPT !.np = np]]
  /\ ref' = [ref EXCEPT ![id] = [live |-> TRUE, np |-> np, bt |-> << >>, long |-> NoLongF]]
  /\ cli' = [cli EXCEPT ![id] = [live |-> TRUE, np |-> np, types |-> << >>]]
  /\ lastcb' = [k |-> "prepare", id |-> id] /\ UNCHANGED <<result, viol>>
PrepareErr ==
  /\ Tick([op |-> "prepare_err"]) /\ lastcb' = [k |-> "prepare_err"] /\ UNCHANGED <<stmts, ref, cli, result, viol>>
Close(id) ==
  /\ Tick([op |-> "close", id |-> id])
  /\ stmts' = [stmts EXCEPT ![id] = IF RemoveOnClose THEN Dead ELSE @]
  /\ ref' = [ref EXCEPT ![id] = Dead] /\ cli' = [cli EXCEPT ![id] = CDead]
  /\ lastcb' = [k |-> "close", id |-> id] /\ UNCHANGED <<result, viol>>
AddLong(long, p, chunk) == IF p \in DOMAIN long THEN [long EXCEPT ![p] = @ \o chunk]
                           ELSE [x \in DOMAIN long \cup {p} |-> IF x = p THEN chunk ELSE long[x]]
LongData(id, p, chunk) ==
  /\ Tick([op |-> "long", id |-> id, p |-> p, chunk |-> chunk])
  /\ (IF stmts[id].live
      THEN /\ stmts' = [stmts EXCEPT ![id].long = IF ~KeepsEmptyLong /\ chunk = << >> THEN @ ELSE AddLong(@, p, chunk)] /\ UNCHANGED <<result, lastcb>>
      ELSE /\ result' = "err" /\ lastcb' = [k |-> "none"] /\ UNCHANGED stmts)
  /\ ref' = IF ref[id].live THEN [ref EXCEPT ![id].long = AddLong(@, p, chunk)] ELSE ref
  /\ viol' = viol \cup (IF stmts[id].live # ref[id].live THEN {"C10: long data accepted/refused against the registry reference"} ELSE {})
  /\ UNCHANGED cli
\* a conformant client: binds types on the first execution, may rebind later, reuses otherwise;
\* parameters with pending long data carry no inline bytes
Execute(id, rebind, types, nulls) ==
  /\ Tick([op |-> "execute", id |-> id, rebind |-> rebind, types |-> types, nulls |-> nulls])
  /\ LET c == cli[id] e == stmts[id] r == ref[id] IN
     IF ~c.live THEN
        \* executing an id the client does not hold: must end the connection, no callback
        /\ types = << >> /\ nulls = << >> /\ ~rebind
        /\ (IF e.live THEN lastcb' = [k |-> "execute", id |-> id, vals |-> << >>] /\ UNCHANGED result
            ELSE result' = "err" /\ lastcb' = [k |-> "none"])
        /\ viol' = viol \cup (IF e.live THEN {"C10: execution of a dead id reached the shim"} ELSE {})
        /\ UNCHANGED <<stmts, ref, cli>>
     ELSE
        /\ Len(types) = c.np /\ Len(nulls) = c.np
        /\ (rebind \/ c.np = 0 \/ (c.types # << >> /\ types = c.types))
        /\ LET haslong == [k \in 1..c.np |-> (k - 1) \in DOMAIN r.long]
               p == ExecPayload(id, c.np, rebind, types, nulls, haslong)
               want == ExecDecode(p, r.np, r.bt, r.long)           \* the specification's answer
           IN IF ~e.live THEN
                /\ result' = "err" /\ lastcb' = [k |-> "none"] /\ viol' = viol \cup {"C10: live id refused"}
                /\ UNCHANGED <<stmts, ref, cli>>
              ELSE LET d == SrvDecode(p, e) IN
                /\ lastcb' = [k |-> "execute", id |-> id, vals |-> d.vals]
                /\ stmts' = [i \in AllIds |-> IF i = id THEN [stmts[i] EXCEPT !.bt = d.bt, !.long = IF ClearsLongData THEN NoLongF ELSE @]
                                               ELSE IF ClearsOnlyOwn THEN stmts[i] ELSE [stmts[i] EXCEPT !.long = NoLongF]]
                /\ ref' = [ref EXCEPT ![id].bt = IF want.ok THEN want.types ELSE @, ![id].long = NoLongF]
                /\ cli' = [cli EXCEPT ![id].types = types]
                /\ UNCHANGED result
                /\ viol' = viol \cup (IF ~want.ok THEN {"spec: conformant block rejected by ExecDecode"}
                                      ELSE IF d.vals # want.vals
                                      THEN {(IF ~rebind THEN "C16" ELSE IF DOMAIN r.long # {} THEN "C17" ELSE "C08") \o ": parameter values seen by the shim differ"}
                                      ELSE {})
Next == \/ \E id \in Ids, np \in 0..2 : PrepareOk(id, np)
        \/ PrepareErr
        \/ \E id \in AllIds : Close(id)
        \/ \E id \in AllIds, p \in 0..1, ch \in {<< >>, <<9>>, <<7, 7>>} : LongData(id, p, ch)
        \/ \E id \in AllIds, rb \in BOOLEAN,
              ts \in {<< >>} \cup {<<TyRec(a, FALSE)>> : a \in TYPES} \cup {<<TyRec(1, TRUE)>>}
                     \cup {<<TyRec(a, FALSE), TyRec(b, FALSE)>> : a \in TYPES, b \in TYPES},
              ns \in {<< >>, <<FALSE>>, <<TRUE>>, <<FALSE, FALSE>>, <<TRUE, FALSE>>, <<FALSE, TRUE>>} :
              Execute(id, rb, ts, ns)
Spec == Init /\ [][Next]_vars

P_Registry == viol = {}
\* the operational registry and the reference agree on liveness, bound types and pending long data
P_Agree == \A i \in AllIds : stmts[i].live = ref[i].live
                             /\ (ref[i].live => stmts[i].np = ref[i].np /\ stmts[i].long = ref[i].long
                                                /\ (ref[i].bt # << >> => stmts[i].bt = ref[i].bt))
EmitReplay == (nhist = MaxHist \/ result # "running") => PrintT(<<"REPLAY", ToJson([hist |-> hist, result |-> result])>>)
=============================================================================
