------------------------------- MODULE Trace -------------------------------
(***************************************************************************)
(* Trace monitor: validates event traces recorded from the REAL server     *)
(* (harness/, scripted transport + program shim) against the protocol      *)
(* specification.  One logged event is consumed per step; the monitor is   *)
(* total and classifying: a failed predicate adds [p, at, why] to `viol`   *)
(* instead of disabling the step, and at every `end` event a VERDICT line  *)
(* is printed for the run.  The server is sequential and every environment *)
(* choice is logged with its arguments, so the trace spec never branches.  *)
(*                                                                         *)
(* The monitor is a pipelining reference client plus reference models of   *)
(* the server-side state that the properties talk about:                   *)
(*   inb / q   inbound bytes -> complete commands (Packets!Messages), each *)
(*             classified by Commands!Classify                            *)
(*   reg       statement registry reference model (C10, C16, C17)          *)
(*   ob        outbound bytes, consumed response by response with          *)
(*             ClientDecoder and compared with WriterSem!Denote            *)
(***************************************************************************)
EXTENDS WriterSem, Packets, FiniteSets

Rec == ndJsonDeserialize(IOEnv.TRACE)

VARIABLES l, m, viol
vars == <<l, m, viol>>

Stats0 == [cmds |-> 0, cbs |-> 0, units |-> 0, rows |-> 0, pvs |-> 0, pkts |-> 0, rds |-> 0]
M0 == [run |-> "", kind |-> "", shim |-> "program", tls |-> FALSE, ctls |-> FALSE, ccert |-> FALSE, cchain |-> << >>, auth |-> "accept", mode |-> "pipelined",
       phase |-> "greet", inb |-> << >>, q |-> << >>, ob |-> << >>, unfl |-> 0, cur |-> 0,
       reg |-> << >>, lost |-> FALSE, free |-> FALSE, fault |-> FALSE, eof |-> FALSE, dead |-> "", token |-> -1,
       quit |-> FALSE, enc |-> FALSE, raw |-> << >>, hsdone |-> FALSE, blocked |-> FALSE,
       floats |-> << >>, n |-> Stats0, done |-> FALSE, panics |-> << >>, wpanic |-> FALSE, ever |-> {}, eintr |-> FALSE, partial |-> FALSE, closing |-> FALSE]

Init == l = 1 /\ m = M0 /\ viol = {}

\* ---- statement registry reference model: sequence of [id, np, types, long] ----
RegFind(reg, id) == LET S == {i \in 1..Len(reg) : reg[i].id = id} IN IF S = {} THEN 0 ELSE CHOOSE i \in S : TRUE
RegPut(reg, e) == LET i == RegFind(reg, e.id) IN IF i = 0 THEN Append(reg, e) ELSE [reg EXCEPT ![i] = e]
RegDel(reg, id) == SelectSeq(reg, LAMBDA e : e.id # id)
WellFormedTime(b) == Len(b) \in {8, 12} /\ b[1] = 0 /\ b[6] < 24 /\ b[7] < 60 /\ b[8] < 60
                     /\ (Len(b) = 12 => b[12] = 0 /\ b[9] + 256 * b[10] + 65536 * b[11] < 1000000)
\* bound types after a malformed parameter block (no well-formed reuse execution can be decoded with them)
UnknownTypes == <<[ty |-> -1, uns |-> FALSE]>>
NoLong == [x \in {} |-> << >>]

\* ---- command queue entries ----
Entry(msg, cls) == [p |-> msg.p, seq |-> msg.seqN, consec |-> msg.consec, cls |-> cls, st |-> "new",
                    prog |-> << >>, ret |-> "", bin |-> FALSE, exp |-> [ok |-> FALSE], npv |-> 0, at |-> 0, unbound |-> FALSE, skip |-> 0]
HsCls == [kind |-> "hs", cb |-> "auth", arg |-> << >>, judge |-> FALSE, reply |-> TRUE, fatal |-> FALSE]
SslReqCls == [kind |-> "sslreq", cb |-> "", arg |-> << >>, judge |-> FALSE, reply |-> FALSE, fatal |-> FALSE]

\* first entry still waiting for its turn
FirstNew(q) == LET S == {i \in 1..Len(q) : q[i].st = "new"} IN IF S = {} THEN 0 ELSE CHOOSE i \in S : \A j \in S : i <= j

RECURSIVE Advance(_)
\* let the reference server pass over commands that need no callback
Advance(mm) ==
  LET i == FirstNew(mm.q) IN
  IF i = 0 \/ mm.dead # "" \/ mm.quit \/ mm.free \/ mm.cur # 0 THEN mm   \* (inside a callback the server is not advancing)
  ELSE LET e == mm.q[i] c == e.cls IN
    IF c.kind = "hs" THEN
      LET h == DecHandshakeResponse(e.p, mm.enc) IN
      IF ~h.ok THEN [mm EXCEPT !.q[i].st = "fatal", !.dead = "malformed handshake"]
      ELSE IF h.ssl /\ ~mm.enc THEN
        (IF mm.tls THEN Advance([mm EXCEPT !.q[i].st = "auto", !.q[i].cls = SslReqCls, !.enc = TRUE])
         ELSE [mm EXCEPT !.q[i].st = "fatal", !.dead = "client requested TLS but none is configured"])
      ELSE mm
    ELSE IF c.fatal THEN [mm EXCEPT !.q[i].st = "fatal", !.dead = "command text is not valid UTF-8"]
    ELSE IF c.kind = "bad" THEN [mm EXCEPT !.q[i].st = "bad", !.free = TRUE]
    ELSE IF c.kind \in {"selvar", "fieldlist", "ping"} \/ (c.cb = "on_init" /\ mm.shim = "default_init")
      THEN Advance([mm EXCEPT !.q[i].st = "auto"])
    ELSE IF c.kind = "quit" THEN [mm EXCEPT !.q[i].st = "auto", !.quit = TRUE]
    ELSE IF c.kind = "longdata" THEN
      LET r == RegFind(mm.reg, c.arg) IN
      IF r = 0 THEN [mm EXCEPT !.q[i].st = "fatal", !.dead = "long data for an unknown statement"]
      ELSE LET pi == Le16(e.p, 6)
               old == mm.reg[r].long
               new == IF pi \in DOMAIN old THEN [old EXCEPT ![pi] = @ \o From(e.p, 8)]
                      ELSE [x \in DOMAIN old \cup {pi} |-> IF x = pi THEN From(e.p, 8) ELSE old[x]]
           IN Advance([mm EXCEPT !.q[i].st = "auto", !.reg[r].long = new])
    ELSE IF c.kind = "execute" /\ RegFind(mm.reg, c.arg) = 0 THEN
      [mm EXCEPT !.q[i].st = "fatal", !.dead = "execute of an unknown statement"]
    ELSE mm   \* needs a callback

\* ---- taking complete commands out of the inbound byte stream ----
RECURSIVE MkEntries(_, _, _)
MkEntries(msgs, i, hsdone) ==
  IF i > Len(msgs) THEN << >>
  ELSE <<Entry(msgs[i], IF hsdone THEN Classify(msgs[i].p) ELSE HsCls)>> \o MkEntries(msgs, i + 1, TRUE)

\* bytes arrive (plaintext protocol stream)
Inbound(mm, got) ==
  LET s == mm.inb \o got
      r == Messages(s)
      \* after an SSL request everything that follows in the stream is TLS, not protocol
      isSsl == ~mm.hsdone /\ ~mm.enc /\ Len(r.msgs) > 0 /\ mm.tls
               /\ LET h == DecHandshakeResponse(r.msgs[1].p, FALSE) IN h.ok /\ h.ssl
      msgs == IF isSsl THEN <<r.msgs[1]>> ELSE r.msgs
      ents == MkEntries(msgs, 1, mm.hsdone)
  IN [mm EXCEPT !.inb = IF isSsl THEN << >> ELSE r.rest,
                !.q = @ \o ents,
                !.hsdone = IF isSsl THEN FALSE ELSE (@ \/ Len(msgs) > 0),
                !.n.cmds = @ + Len(msgs)]

\* ---- consuming server output ----
Incomplete == {"response missing", "column definitions missing", "resultset not terminated",
               "EOF after column definitions missing", "field list not terminated"}

\* Layered attribution: output that cannot be decoded violates C03 (no conformant response) and also the
\* property that speaks about the layer that failed (a value that cannot be decoded has not arrived unchanged)
MetaWhy == {"column count packet", "LOCAL INFILE request", "coldef: catalog", "coldef: schema", "coldef: table", "coldef: org_table",
            "coldef: name", "coldef: org_name", "coldef: fixed fields truncated", "coldef: fixed-length marker", "coldef: catalog is not def",
            "coldef: trailing bytes", "EOF after column definitions malformed", "prepare-OK packet", "EOF after parameter definitions",
            "EOF after column definitions", "column definitions missing", "EOF after column definitions missing", "MORE flag on the metadata EOF"}
OkWhy == {"OK: affected rows", "OK: last insert id", "OK: truncated", "not an OK packet"}
ErrWhy == {"ERR: truncated", "ERR: sqlstate marker missing", "not an ERR packet"}
Undecodable(what, why, at) ==
  {V("C03", at, what \o " undecodable: " \o why)}
  \cup (IF why \in MetaWhy THEN {V("C09", at, "column metadata undecodable: " \o why)} ELSE {})
  \cup (IF why \in OkWhy THEN {V("C14", at, "completion packet undecodable: " \o why)} ELSE {})
  \cup (IF why \in ErrWhy THEN {V("C13", at, "error packet undecodable: " \o why)} ELSE {})

\* rows the shim wrote (all calls reported success) that sit in a response the client cannot decode or never
\* gets have not arrived "exactly as written": C06 (text) / C07 (binary)
RowsLost(e, at) ==
  IF e.cls.cb \notin {"on_query", "on_execute"} \/ ~ProgAllOk(e.prog) THEN {}
  ELSE LET us == Denote(e.prog, e.bin, at).units IN
       IF \E k \in 1..Len(us) : us[k].k = "rs" /\ Len(us[k].rows) > 0
       THEN {V(IF e.bin THEN "C07" ELSE "C06", at, "rows written by the shim did not reach the client in a decodable response")}
       ELSE {}

\* sequence ids of the packets of messages M[1..used] must continue req+1 (C05)
SeqViol(M, used, req, at) ==
  LET bad == {j \in 1..used : M[j].seq0 # (IF j = 1 THEN (req + 1) % 256 ELSE (M[j - 1].seqN + 1) % 256) \/ ~M[j].consec} IN
  IF bad = {} THEN {} ELSE {V("C05", at, "response packet sequence id does not continue the request's")}

AfterMsgs(ob, M, used) == IF used = 0 THEN ob ELSE IF used < Len(M) THEN From(ob, M[used + 1].at) ELSE
                          \* position after the last packet of message `used`
                          LET sp == Split(ob) IN From(ob, sp.next)

\* over TLS the login must be answered exactly as over plaintext (C18)
TlsToo(mm, at, vs) == vs \cup (IF mm.enc /\ mm.ctls /\ vs # {}
                               THEN {V("C18", at, "the login over TLS is not answered as over plaintext (reply kind / code / sequence id)")} ELSE {})

\* result of judging the head entry e against messages M: [done, used, viol, floats, lost]
\*   done = FALSE: response not complete yet (only acceptable while the server is still working)
JudgeReply(mm, e, M, at) ==
  LET c == e.cls IN
  IF c.kind = "hs" THEN
     LET d == DecUnit(M, 1) IN
     IF ~d.ok THEN [done |-> d.why \notin Incomplete, used |-> 0, floats |-> << >>, lost |-> d.why \notin Incomplete,
                    viol |-> IF d.why \in Incomplete THEN {} ELSE {V("C11", at, "handshake reply undecodable: " \o d.why)}, why |-> d.why]
     ELSE [done |-> TRUE, used |-> 1, floats |-> << >>, lost |-> FALSE,
           viol |-> TlsToo(mm, at, (IF e.ret = "ok"
                     THEN (IF d.u.k # "ok" THEN {V("C11", at, "accepted authentication not answered with OK")} ELSE {})
                     ELSE (IF d.u.k # "err" THEN {V("C11", at, "rejected authentication not answered with ERR")}
                           ELSE IF d.u.code # 1045 \/ d.u.state # <<50, 56, 48, 48, 48>> THEN {V("C11", at, "rejection is not ERR 1045/28000")} ELSE {}))
                    \cup (IF M[1].seq0 # (e.seq + 1) % 256 THEN {V("C11", at, "handshake reply does not carry the next sequence id")} ELSE {})
                    \cup SeqViol(M, 1, e.seq, at))]
  ELSE IF c.kind = "ping" THEN
     LET d == DecUnit(M, 1) IN
     IF ~d.ok THEN [done |-> d.why \notin Incomplete, used |-> 0, floats |-> << >>, lost |-> d.why \notin Incomplete,
                    viol |-> IF d.why \in Incomplete THEN {} ELSE Undecodable("ping reply", d.why, at), why |-> d.why]
     ELSE [done |-> TRUE, used |-> 1, floats |-> << >>, lost |-> d.u.k # "ok" \/ d.more,
           viol |-> (IF d.u.k # "ok" \/ d.more THEN {V("C03", at, "ping not answered with a final OK")} ELSE {}) \cup SeqViol(M, 1, e.seq, at)]
  ELSE IF c.kind = "fieldlist" THEN
     LET d == DecFieldList(M, 1) IN
     IF ~d.ok THEN [done |-> d.why \notin Incomplete, used |-> 0, floats |-> << >>, lost |-> d.why \notin Incomplete,
                    viol |-> IF d.why \in Incomplete THEN {} ELSE Undecodable("field-list reply", d.why, at), why |-> d.why]
     ELSE [done |-> TRUE, used |-> d.next - 1, floats |-> << >>, lost |-> FALSE, viol |-> SeqViol(M, d.next - 1, e.seq, at)]
  ELSE IF c.kind = "prepare" /\ Len(e.prog) = 0 THEN
     [done |-> TRUE, used |-> 0, floats |-> << >>, lost |-> TRUE, viol |-> {}]
  ELSE IF c.kind = "prepare" THEN
     LET d == DecPrepare(M, 1) IN
     IF ~d.ok THEN [done |-> d.why \notin Incomplete, used |-> 0, floats |-> << >>, lost |-> d.why \notin Incomplete,
                    viol |-> IF d.why \in Incomplete THEN {} ELSE Undecodable("prepare reply", d.why, at), why |-> d.why]
     ELSE LET o == e.prog[1].op IN
       [done |-> TRUE, used |-> d.next - 1, floats |-> << >>, lost |-> FALSE,
        viol |-> SeqViol(M, d.next - 1, e.seq, at) \cup
          (IF o.op = "perror"
           THEN (IF ~d.iserr THEN {V("C03", at, "prepare error not answered with ERR")} ELSE ErrCmp(d.err, o.kind, o.msg, at))
           ELSE (IF d.iserr THEN {V("C03", at, "prepare reply is an ERR")}
                 ELSE (IF d.id # o.id THEN {V("C09", at, "statement id in the prepare reply differs")} ELSE {})
                      \cup ColsCmp(d.params, o.params, at) \cup ColsCmp(d.cols, o.cols, at)))]
  ELSE \* selvar, query, execute, use, initdb: a chain of response units
     LET d == DecResponse(M, 1) IN
     IF ~d.ok THEN [done |-> d.why \notin Incomplete, used |-> 0, floats |-> << >>, lost |-> d.why \notin Incomplete,
                    viol |-> IF d.why \in Incomplete THEN {} ELSE Undecodable("response", d.why, at) \cup RowsLost(e, at), why |-> d.why]
     ELSE IF c.kind = "selvar" THEN
       [done |-> TRUE, used |-> d.next - 1, floats |-> << >>, lost |-> FALSE, viol |-> SeqViol(M, d.next - 1, e.seq, at)]
     ELSE
       LET prog == IF mm.shim = "default_init" /\ c.cb = "on_init" THEN <<[op |-> [op |-> "init_ok"], res |-> "ok", st |-> "i"]>> ELSE e.prog
           den == Denote(prog, e.bin, at)
           cmp == ResponseCmp(d.units, den.units, e.bin, at)
           misuse == \E x \in den.viol : x.p = "MISUSE"
       IN IF misuse THEN [done |-> TRUE, used |-> 0, floats |-> << >>, lost |-> TRUE, viol |-> {}]
          ELSE [done |-> TRUE, used |-> d.next - 1, floats |-> cmp.floats, lost |-> FALSE,
                viol |-> SeqViol(M, d.next - 1, e.seq, at) \cup den.viol \cup cmp.viol]

RECURSIVE Consume(_, _, _, _)
\* mm: monitor state, v: violations, at: trace position, strict: every answered command must be complete
\* (strict at read/end synchronisation points)
Consume(mm, v, at, strict) ==
  IF mm.lost \/ mm.fault THEN [m |-> mm, v |-> v]   \* after a transport fault the stream is legitimately broken
  ELSE IF mm.phase = "greet" THEN
    LET r == Messages(mm.ob) IN
    IF Len(r.msgs) = 0 THEN [m |-> mm, v |-> v \cup (IF strict THEN {V("C11", at, "no greeting before the server waits for input")} ELSE {})]
    ELSE LET g == DecGreeting(r.msgs[1].p)
             gv == IF ~g.ok THEN {V("C11", at, g.why)}
                   ELSE (IF ~HasCap(g.capslo, CLIENT_PROTOCOL_41) THEN {V("C11", at, "greeting does not advertise the 4.1 protocol")} ELSE {})
                        \cup (IF HasCap(g.capslo, CLIENT_SSL) # mm.tls THEN {V("C11", at, "greeting advertises TLS iff the shim offers it: violated")} ELSE {})
             sv == IF r.msgs[1].seq0 # 0 THEN {V("C05", at, "greeting sequence id is not 0")} ELSE {}
         IN Consume([mm EXCEPT !.phase = "cmd", !.ob = AfterMsgs(mm.ob, r.msgs, 1), !.n.pkts = @ + 1], v \cup gv \cup sv, at, strict)
  ELSE IF Len(mm.q) = 0 THEN
    [m |-> IF mm.ob # << >> THEN [mm EXCEPT !.lost = TRUE] ELSE mm,
     v |-> v \cup (IF mm.ob # << >> THEN {V("C03", at, "bytes sent while no command is outstanding")} ELSE {})]
  ELSE LET e == mm.q[1] IN
    IF e.st \in {"new", "disp", "fatal", "bad"} THEN [m |-> mm, v |-> v]
    ELSE IF ~e.cls.reply THEN Consume([mm EXCEPT !.q = Tail(@), !.cur = IF @ > 0 THEN @ - 1 ELSE 0], v, at, strict)
    ELSE IF e.st = "ret" /\ (e.ret # "ok" \/ ~ProgAllOk(e.prog)) /\ e.cls.kind # "hs" THEN
      \* the callback failed: the connection is ending, the response may legitimately be incomplete;
      \* rows that were emitted must still have the declared shape
      [m |-> mm, v |-> v]
    ELSE IF e.st = "ret" /\ e.cls.cb \in {"on_query", "on_execute"} /\ ~ProgStarted(e.prog) THEN
      \* writer dropped without ever starting anything: outside the properties
      [m |-> [mm EXCEPT !.free = TRUE], v |-> v]
    ELSE IF e.st = "ret" /\ e.cls.cb \in {"on_query", "on_execute"} /\ (\E x \in Denote(e.prog, e.bin, at).viol : x.p = "MISUSE") THEN
      \* row writer dropped with a partial, contradicting row (a drop cannot refuse): shim misuse, not judged
      [m |-> [mm EXCEPT !.free = TRUE], v |-> v]
    ELSE LET r == Messages(mm.ob)
             j == JudgeReply(mm, e, r.msgs, at)
         IN IF ~j.done THEN
              (IF (e.st = "ret" /\ ~(mm.enc /\ mm.ctls)) \/ strict
               THEN [m |-> [mm EXCEPT !.lost = TRUE],
                     v |-> v \cup {V("C03", at, "response missing or incomplete for a " \o e.cls.kind \o " command")}
                             \cup (IF strict /\ e.cls.kind # "hs"
                                   THEN {V("C12", at, "a command the server had received completely was not (completely) answered when it asked for more input")} ELSE {})
                             \cup (IF "why" \in DOMAIN j /\ j.why \in MetaWhy
                                   THEN {V("C09", at, "column metadata incomplete: " \o j.why)} ELSE {})
                             \cup (IF e.st = "ret" THEN RowsLost(e, at) ELSE {})
                             \cup (IF e.cls.cb \in {"on_query", "on_execute", "on_init", "on_prepare"} /\ e.st = "ret"
                                      /\ LET us == Denote(e.prog, e.bin, at).units IN
                                         \E k \in 1..Len(us) : us[k].k = "err" \/ (us[k].k = "rs" /\ us[k].term = "err")
                                   THEN {V("C13", at, "an error reported by the shim did not reach the client as a decodable ERR packet")} ELSE {})]
               ELSE [m |-> mm, v |-> v])
            ELSE LET mm2 == [mm EXCEPT !.q = Tail(@), !.cur = IF @ > 0 THEN @ - 1 ELSE 0, !.ob = AfterMsgs(mm.ob, r.msgs, j.used),
                                       !.lost = j.lost, !.floats = @ \o j.floats, !.n.units = @ + 1, !.n.pkts = @ + j.used]
                 IN Consume(mm2, v \cup j.viol, at, strict)

\* at a synchronisation point nothing may be left unanswered
SyncViol(mm, at) ==
  IF mm.lost \/ mm.free \/ mm.fault THEN {}
  ELSE (IF \E i \in 1..Len(mm.q) : mm.q[i].st \in {"auto", "ret"} /\ mm.q[i].cls.reply /\ (mm.q[i].st = "auto" \/ mm.q[i].ret = "ok")
        THEN {V("C03", at, "a command that expects a reply has none when the server waits for input"),
              V("C12", at, "server waits for input while it owes a reply")} ELSE {})
       \cup (IF mm.dead = "" /\ ~mm.quit /\ FirstNew(mm.q) # 0
             THEN {V("C12", at, "server waits for input although a complete command is buffered")}
                  \cup (IF mm.q[FirstNew(mm.q)].cls.cb # ""
                        THEN {V("C02", at, "the server asks for more input although a received command has not reached its callback " \o mm.q[FirstNew(mm.q)].cls.cb)}
                        ELSE {})
             ELSE {})

\* ---- TLS record framing of raw server bytes after the switch (C18) ----
RECURSIVE TlsStrip(_)
TlsStrip(s) ==
  IF Len(s) < 5 THEN [ok |-> TRUE, rest |-> s]
  ELSE IF s[1] \notin {20, 21, 22, 23} \/ s[2] # 3 \/ s[5] + 256 * s[4] > 18432 THEN [ok |-> FALSE, rest |-> s]
  ELSE LET n == s[5] + 256 * s[4] IN
       IF Len(s) < 5 + n THEN [ok |-> TRUE, rest |-> s] ELSE TlsStrip(From(s, 6 + n))

\* ---- parameter values seen by the shim (C08, C16, C17) ----
\* IEEE-754: any NaN equals any NaN here (a float conversion may quiet a signalling NaN; the payload is not a value)
IsNaN64(b) == b[8] % 128 = 127 /\ b[7] \div 16 = 15 /\ (b[7] % 16 # 0 \/ b[6] # 0 \/ b[5] # 0 \/ b[4] # 0 \/ b[3] # 0 \/ b[2] # 0 \/ b[1] # 0)
IsNaN32(b) == b[4] % 128 = 127 /\ b[3] \div 128 = 1 /\ (b[3] % 128 # 0 \/ b[2] # 0 \/ b[1] # 0)
InnerCmp(got, want) ==
  IF got.t # want.t THEN FALSE
  ELSE IF want.t = "double" THEN got.le = want.le \/ (IsNaN64(got.le) /\ IsNaN64(want.le))
  ELSE IF want.t \in {"int", "uint"} THEN got.le = want.le
  ELSE IF want.t = "null" THEN TRUE
  ELSE got.b = want.b
ConvCmp(got, want) ==
  IF got.t = "panic" THEN FALSE
  ELSE IF want.t = "int" THEN got.t = "int" /\ got.le = want.le
  ELSE IF want.t = "f32" THEN got.t = "f32" /\ (got.le = want.le \/ (IsNaN32(got.le) /\ IsNaN32(want.le)))
  ELSE IF want.t = "f64" THEN got.t = "f64" /\ (got.le = want.le \/ (IsNaN64(got.le) /\ IsNaN64(want.le)))
  ELSE IF want.t = "bytes" THEN got.t = "bytes" /\ got.b = want.b
  ELSE got.t = want.t /\ got.v = want.v

DeadTag(reason) == IF reason \in {"execute of an unknown statement", "long data for an unknown statement"} THEN "C10"
                   ELSE IF reason \in {"authentication rejected", "malformed handshake"} THEN "C11"
                   ELSE IF reason = "client requested TLS but none is configured" THEN "C18"
                   ELSE IF reason = "command text is not valid UTF-8" THEN "C02"
                   ELSE "C19"

\* ---- the step ----
Step ==
  /\ l <= Len(Rec)
  /\ l' = l + 1
  /\ LET e == Rec[l] IN
     CASE e.e = "begin" ->
            /\ m' = IF e.kind = "conn"
                    THEN [M0 EXCEPT !.run = e.run, !.kind = e.kind, !.shim = e.shim, !.tls = e.tls, !.ctls = e.ctls, !.ccert = e.ccert, !.cchain = e.cchain, !.auth = e.auth, !.mode = e.mode]
                    ELSE [M0 EXCEPT !.run = e.run, !.kind = e.kind]
            /\ viol' = {}
       [] e.e = "wr" ->
            IF m.enc /\ m.ctls
            THEN LET t == TlsStrip(m.raw \o e.b) IN
                 /\ m' = [m EXCEPT !.raw = t.rest, !.unfl = @ + Len(e.b)]
                 /\ viol' = viol \cup (IF ~t.ok THEN {V("C18", l, "bytes sent after the TLS switch are not TLS records")} ELSE {})
            ELSE /\ m' = [m EXCEPT !.ob = @ \o e.b, !.unfl = @ + Len(e.b)]
                 /\ UNCHANGED viol
       [] e.e = "p_wr" ->
            LET r == Consume(Advance([m EXCEPT !.ob = @ \o e.b]), viol, l, FALSE) IN m' = r.m /\ viol' = r.v
       [] e.e = "fl" ->
            LET r == Consume(Advance([m EXCEPT !.unfl = 0]), viol, l, FALSE) IN m' = r.m /\ viol' = r.v
       [] e.e = "rd_err" /\ m.quit /\ ~m.fault ->
            \* the client's QUIT has been served: the connection has ended cleanly as far as the client is concerned.
            \* Whether the server reads on (to drain the socket, say) is its own business, but what such a read
            \* returns is no longer a failure of the conversation: the outcome stays "Ok exactly when the client quits"
            /\ m' = m
            /\ UNCHANGED viol
       [] e.e = "rd" ->
            LET r0 == Consume(Advance(m), viol, l, TRUE)
                v1 == r0.v \cup SyncViol(r0.m, l)
                      \cup (IF r0.m.unfl # 0 /\ ~r0.m.lost THEN {V("C12", l, "server waits for input with unflushed output")} ELSE {})
                      \cup (IF r0.m.dead # "" /\ ~r0.m.fault /\ Len(e.got) > 0 /\ FALSE THEN {} ELSE {})
                m1 == IF Len(e.got) = 0 THEN [r0.m EXCEPT !.eof = (e.want > 0)]   \* (a read into an empty buffer is not an end of stream)
                      ELSE IF r0.m.enc /\ r0.m.ctls THEN r0.m
                      ELSE Advance(Inbound(r0.m, e.got))
            IN /\ m' = [m1 EXCEPT !.n.rds = @ + 1, !.lost = @ \/ (v1 # r0.v)]
               /\ viol' = v1
       [] e.e = "p_send" ->
            /\ m' = Advance(Inbound(m, e.b))
            /\ UNCHANGED viol
       [] e.e = "rd_block" ->
            /\ m' = [m EXCEPT !.blocked = TRUE]
            /\ UNCHANGED viol
       [] e.e \in {"rd_err", "wr_err", "fl_err"} ->
            \* EINTR is not a failure of the transport: the server may retry (then the stream must stay intact and
            \* everything is judged as usual) or give up with an error (then it is treated like a fault at the end)
            /\ m' = IF "kind" \in DOMAIN e /\ e.kind = "Interrupted" THEN [m EXCEPT !.eintr = TRUE]
                    ELSE [m EXCEPT !.fault = TRUE, !.dead = IF @ = "" THEN "transport fault" ELSE @]
            /\ UNCHANGED viol
       [] e.e = "tls_close" ->
            \* the scripted TLS client has sent everything and closes its side (close_notify): a clean end of the stream
            /\ m' = [m EXCEPT !.closing = TRUE]
            /\ UNCHANGED viol
       [] e.e = "tls_partial" ->
            \* the scripted TLS client has started a record that it will not finish: the stream ends inside it
            /\ m' = [m EXCEPT !.partial = TRUE]
            /\ UNCHANGED viol
       [] e.e = "tls_fail" ->
            /\ m' = [m EXCEPT !.lost = TRUE]
            /\ viol' = viol \cup {V("C18", l, "TLS session failed: " \o e.msg)}
       [] e.e = "cb" ->
            LET r0 == Consume(Advance(m), viol, l, FALSE)
                mm == r0.m
                i == FirstNew(mm.q)
                vdead == IF mm.dead # "" THEN {V(DeadTag(mm.dead), l, "shim callback " \o e.name \o " started although: " \o mm.dead)}
                                                \cup (IF e.name = "auth" /\ mm.dead = "client requested TLS but none is configured"
                                                      THEN {V("C11", l, "after_authentication was called for a connection that had to be refused, without the client's user name")}
                                                      ELSE {})
                         ELSE {}
                \* (the queue of commands comes from the client's bytes alone: a callback with no command to answer
                \* is wrong however the replies looked so far)
                vnocmd == IF ~mm.free /\ ~m.free /\ i = 0 /\ e.name # "auth"
                          THEN {V("C02", l, "callback " \o e.name \o " although no client command is waiting for one")} ELSE {}
            IN IF mm.lost \/ mm.free THEN m' = mm /\ viol' = r0.v \cup vdead \cup vnocmd
               ELSE IF i = 0 THEN
                 /\ m' = [mm EXCEPT !.lost = TRUE]
                 /\ viol' = r0.v \cup vdead \cup {V(IF e.name = "auth" THEN "C11" ELSE "C02", l, "callback " \o e.name \o " without a pending command")}
                                  \cup (IF e.name # "auth" THEN {V("C01", l, "the shim was handed a command (" \o e.name \o ") that the client has not sent (completely)")} ELSE {})
               ELSE LET q == mm.q[i] c == q.cls
                        argv == IF e.name # c.cb THEN {V(IF "auth" \in {e.name, c.cb} THEN "C11" ELSE "C02", l, "callback " \o e.name \o " where " \o c.cb \o " was due (" \o c.kind \o ")")}
                                                     \cup (IF c.kind = "close" THEN {V("C10", l, "a COM_STMT_CLOSE did not reach on_close")} ELSE {})
                                ELSE IF e.name = "auth" THEN
                                  LET h == DecHandshakeResponse(q.p, mm.enc) IN
                                  (IF e.has_user # h.hasuser \/ e.user # h.user
                                   THEN {V("C11", l, "user name passed to after_authentication differs from the client's")}
                                        \cup (IF mm.enc /\ mm.ctls THEN {V("C18", l, "the user name of the encrypted handshake response did not reach after_authentication")} ELSE {})
                                   ELSE {})
                                  \cup (IF mm.enc /\ mm.ctls /\ mm.ccert /\ e.ncerts < 1 THEN {V("C18", l, "the client's certificate chain did not reach after_authentication")} ELSE {})
                                  \cup (IF ~(mm.enc /\ mm.ctls /\ mm.ccert) /\ e.ncerts > 0 THEN {V("C18", l, "certificates reported although the client presented none")} ELSE {})
                                  \* the whole chain, in the order presented (fingerprints = [length, checksum] per certificate)
                                  \cup (IF mm.enc /\ mm.ctls /\ mm.ccert /\ e.ncerts >= 1 /\ e.certs # mm.cchain
                                        THEN {V("C18", l, "the certificate chain that reached after_authentication differs from the chain the client presented")} ELSE {})
                                ELSE IF e.name \in {"on_execute", "on_close"} THEN
                                  (IF e.id # c.arg THEN {V("C02", l, "statement id passed to " \o e.name \o " differs"), V("C10", l, "statement id passed to " \o e.name \o " differs")} ELSE {})
                                ELSE IF c.judge /\ e.text # c.arg THEN {V("C02", l, "argument of " \o e.name \o " differs from what the client sent"), V("C01", l, "argument of " \o e.name \o " differs from the bytes the client sent")}
                                ELSE {}
                        prev == IF i > 1 /\ \E j \in 1..(i - 1) : mm.q[j].cls.reply
                                THEN {V("C03", l, "a command is dispatched before the previous reply was complete")} ELSE {}
                        r == IF c.kind = "execute" THEN RegFind(mm.reg, c.arg) ELSE 0
                        exp == IF r # 0 THEN ExecDecode(q.p, mm.reg[r].np, mm.reg[r].types, mm.reg[r].long) ELSE [ok |-> FALSE]
                        unb == r # 0 /\ mm.reg[r].np > 0 /\ mm.reg[r].types = << >> /\ Len(q.p) >= 11 + ((mm.reg[r].np + 7) \div 8)
                               /\ q.p[11 + ((mm.reg[r].np + 7) \div 8)] = 0
                    IN /\ m' = [mm EXCEPT !.q[i].st = "disp", !.q[i].bin = (c.kind = "execute"), !.q[i].exp = exp, !.q[i].at = l, !.q[i].unbound = unb,
                                          \* the shim may fetch the k-th parameter first (Iterator::nth / skip) and walk on from there
                                          !.q[i].skip = IF "skip" \in DOMAIN e THEN e.skip ELSE 0,
                                          !.cur = i, !.n.cbs = @ + 1,
                                          \* a malformed parameter block: this execution's parameters are not judged and the types
                                          \* bound for this statement are unknown from here on (until a well-formed rebind); everything
                                          \* else on the connection - other statements in particular - is judged as usual
                                          !.reg = IF e.name = "on_close" /\ e.name = c.cb THEN RegDel(@, c.arg)
                                                  ELSE IF c.kind = "execute" /\ r # 0 /\ ~exp.ok THEN [@ EXCEPT ![r].types = UnknownTypes]
                                                  ELSE @,
                                          !.lost = @ \/ argv # {} \/ prev # {}]
                       /\ viol' = r0.v \cup vdead \cup argv \cup prev
       [] e.e = "pv" /\ m.cur # 0 /\ ~m.lost /\ m.q[m.cur].unbound ->
            \* the statement has parameters, this execution brings no types and none were ever bound for it
            \* (e.g. it was re-prepared): nothing can be decoded, so any value handed to the shim comes from stale state
            /\ m' = [m EXCEPT !.q[m.cur].npv = @ + 1]
            /\ viol' = viol \cup {V("C10", l, "a parameter was decoded although no types are bound for this (re-)prepared statement"),
                                   V("C16", l, "a parameter was decoded with types that were never bound for this statement")}
       [] e.e = "pv" ->
            IF m.cur = 0 \/ m.lost \/ m.free THEN UNCHANGED <<m, viol>>
            ELSE LET q == m.q[m.cur] x == q.exp IN
              IF ~x.ok THEN UNCHANGED <<m, viol>>
              ELSE IF e.idx + 1 > Len(x.vals) THEN
                /\ m' = [m EXCEPT !.q[m.cur].npv = @ + 1]
                /\ viol' = viol \cup {V("C08", l, "more parameters delivered than the statement declares")}
              ELSE LET w == x.vals[e.idx + 1]
                       ce == ConvExpected(w.ct, w.inner)
                       tags == {"C08"} \cup (IF ~x.rebind THEN {"C16"} ELSE {})
                               \cup (IF DOMAIN m.reg[RegFind(m.reg, q.cls.arg)].long # {} THEN {"C17"} ELSE {})
                               \* the first execution of an id that was prepared before on this connection: a re-prepared id starts afresh
                               \cup (IF m.reg[RegFind(m.reg, q.cls.arg)].first /\ m.reg[RegFind(m.reg, q.cls.arg)].again THEN {"C10"} ELSE {})
                   IN /\ m' = [m EXCEPT !.q[m.cur].npv = @ + 1, !.n.pvs = @ + 1]
                      /\ viol' = viol
                           \cup (IF e.ct # w.ct THEN {V(t, l, "parameter type code differs from the bound type") : t \in tags} ELSE {})
                           \cup (IF ~InnerCmp(e.inner, w.inner) THEN {V(t, l, "parameter value differs from what the client sent") : t \in tags} ELSE {})
                           \* (a well-formed, non-negative TIME of any day count converts to a Duration: never a panic)
                           \cup (IF ~ce.judge /\ w.inner.t = "time" /\ e.conv.t = "panic" /\ WellFormedTime(w.inner.b)
                                 THEN {V("C08", l, "conversion of a time parameter panicked at " \o e.conv.site)} ELSE {})
                           \cup (IF ce.judge /\ InnerCmp(e.inner, w.inner) /\ ~ConvCmp(e.conv, ce.c) THEN {V("C08", l, IF e.conv.t = "panic" THEN "conversion of a " \o w.inner.t \o " parameter panicked at " \o e.conv.site
                                                 ELSE "converted " \o w.inner.t \o " parameter differs from what the client encoded")} ELSE {})
       [] e.e = "pv_panic" ->
            /\ m' = [m EXCEPT !.panics = Append(@, e.site)]
            /\ UNCHANGED viol
       [] e.e = "w" ->
            IF m.cur = 0 THEN UNCHANGED <<m, viol>>
            ELSE LET o == e.op
                     mm == [m EXCEPT !.q[m.cur].prog = Append(@, [op |-> o, res |-> e.res, st |-> e.st, kind |-> IF "kind" \in DOMAIN e THEN e.kind ELSE ""])]
                     bin == m.q[m.cur].bin
                 IN /\ m' = IF o.op = "reply" /\ e.res = "ok"
                            THEN [mm EXCEPT !.reg = RegPut(@, [id |-> o.id, np |-> Len(o.params), types |-> << >>, long |-> NoLong,
                                                                first |-> TRUE, again |-> o.id \in m.ever]),
                                            !.ever = @ \cup {o.id}]
                            ELSE [mm EXCEPT !.wpanic = @ \/ e.res = "panic"]
                    /\ viol' = viol \cup
                         (IF e.res # "panic" \/ m.fault THEN {}
                          ELSE IF o.op \in {"write_col", "write_row"} /\ bin
                               THEN {V("C07", l, "writing a value panicked instead of returning an error: " \o e.site)}
                          ELSE IF o.op = "drop" THEN {}
                          ELSE {V("C03", l, "writer call " \o o.op \o " panicked: " \o e.site)})
                         \* an error of a writer call with a transport-level kind comes from the connection, which may
                         \* only fail when the transport did
                         \cup (IF e.res = "err" /\ ~m.fault /\ ~m.eintr /\ "kind" \in DOMAIN e /\ e.kind \in TransportKinds
                               THEN {V("C03", l, "writer call " \o o.op \o " failed with a connection-level error (" \o e.kind \o ") although the transport reported none")}
                                    \cup (IF m.enc THEN {V("C18", l, "over TLS a writer call failed with " \o e.kind \o " although the transport reported no error: not served as over plaintext")} ELSE {})
                                    \cup (IF o.op \in {"start", "reply"} THEN {V("C09", l, "the column metadata declared by the shim could not be sent (" \o e.kind \o ") although the transport reported no error")} ELSE {})
                               ELSE {})
       [] e.e = "cb_ret" ->
            IF m.cur = 0 THEN UNCHANGED <<m, viol>>
            ELSE LET q == m.q[m.cur]
                     isok == e.ret.k = "ok"
                     r == IF q.cls.kind = "execute" THEN RegFind(m.reg, q.cls.arg) ELSE 0
                     \* all declared parameters must have been delivered (C08)
                     pvv == IF q.cls.kind = "execute" /\ q.exp.ok /\ ~m.lost /\ ~m.free /\ q.npv # (IF q.skip >= Len(q.exp.vals) THEN 0 ELSE Len(q.exp.vals) - q.skip) /\ e.ret.k # "panic"
                            THEN {V("C08", l, "number of parameters delivered differs from the number declared")}
                                 \cup (IF ~q.exp.rebind THEN {V("C16", l, "an execution that re-uses bound types did not receive all its parameters")} ELSE {})
                            ELSE {}
                     mm == [m EXCEPT !.q[m.cur].st = "ret", !.q[m.cur].ret = IF isok THEN "ok" ELSE "err", !.cur = 0,
                                     !.dead = IF ~isok /\ @ = "" THEN (IF q.cls.kind = "hs" THEN "authentication rejected" ELSE "shim callback failed") ELSE @,
                                     !.token = IF ~isok /\ m.dead = "" /\ e.ret.k = "shim" THEN e.ret.token ELSE @,
                                     !.reg = IF r # 0 THEN [@ EXCEPT ![r].long = NoLong, ![r].types = IF q.exp.ok THEN q.exp.types ELSE @, ![r].first = FALSE] ELSE @]
                     \* calls that were wrongly accepted or wrongly refused are violations whatever happened afterwards
                     denv == IF q.cls.cb \in {"on_query", "on_execute"} /\ ~m.fault /\ ~m.lost /\ ~m.free
                             THEN {x \in Denote(q.prog, q.bin, l).viol : x.p # "MISUSE"} ELSE {}
                 IN /\ m' = mm
                    /\ viol' = viol \cup pvv \cup denv
       [] e.e = "end" /\ m.kind # "conn" ->
            /\ m' = [m EXCEPT !.done = TRUE]
            /\ UNCHANGED viol
       [] e.e = "ek" ->
            \* error-kind table as the running code has it (C13): code, SQLSTATE, and u16 -> kind round trip
            /\ m' = [m EXCEPT !.n.units = @ + 1]
            /\ viol' = viol \cup
                 (IF e.name \notin DOMAIN ErrRef THEN {V("C13", l, "error kind unknown to the reference table: " \o e.name)}
                  ELSE (IF e.code # ErrRef[e.name].code THEN {V("C13", l, "numeric code of " \o e.name \o " differs from the reference")} ELSE {})
                       \cup (IF e.state # ErrRef[e.name].state THEN {V("C13", l, "SQLSTATE of " \o e.name \o " differs from the reference")} ELSE {})
                       \cup (IF e.back # e.name THEN {V("C13", l, "numeric code of " \o e.name \o " converts back to " \o e.back)} ELSE {}))
       [] e.e = "enc" ->
            \* one direct call of the value encoder (C06 text / C07, C15 binary)
            LET c == e.v.c
                ty == e.col.ty
                fl == e.col.fl
                isint == c.t = "int" /\ ty \in IntCols
                rk == e.v.k
                vs ==
                  IF e.mode = "text" THEN
                    (IF e.res # "ok" THEN {V("C06", l, "text encoding of a value failed")}
                     ELSE LET tc == TextCells(e.out, 1, << >>) IN
                          IF ~tc.ok \/ Len(tc.cells) # 1 THEN {V("C06", l, "text encoding is not exactly one length-encoded cell")}
                          ELSE LET r == TextCellCheck(tc.cells[1], c) IN IF r \in {"", "float"} THEN {} ELSE {V("C06", l, r)})
                  ELSE IF c.t = "null" THEN {}
                  ELSE IF e.res = "ok" THEN
                    (IF Compat(c, ty) = "refuse" THEN {V("C07", l, "value accepted by a column type that cannot carry it")}
                     ELSE IF Compat(c, ty) = "carries" \/ (c.t \in {"dt", "date"} /\ ty \in {7, 10, 12}) THEN
                       LET d == BinCellAt(e.out, 1, ty, fl) IN
                       IF ~d.ok \/ d.next # Len(e.out) + 1 THEN {V(IF isint THEN "C15" ELSE "C07", l, "encoded bytes do not decode at the column's type")}
                       ELSE IF ~BinMatch(d.d, c) THEN {V(IF isint THEN "C15" ELSE "C07", l, "accepted value is sent as a different value")}
                                                      \cup (IF isint /\ ~InRange(MathOf(c.le, c.s), ColRange(ty, fl))
                                                            THEN {V("C07", l, "an integer the column cannot represent was accepted and encoded as something else")} ELSE {})
                       ELSE {}
                     ELSE {})
                  ELSE
                    (IF e.res = "panic" THEN {V("C07", l, "writing a value panicked instead of returning an error: " \o e.site)} ELSE {})
                    \cup (IF isint /\ rk \in {"i8", "u8", "i16", "u16", "i32", "u32", "i64", "u64", "isize", "usize"}
                              /\ MustAccept(rk, MathOf(c.le, c.s), ty, fl)
                          THEN {V("C15", l, "integer refused although the column's range contains it")} ELSE {})
            IN /\ m' = [m EXCEPT !.n.units = @ + 1,
                                  !.floats = IF e.mode = "text" /\ e.res = "ok" /\ c.t \in {"f32", "f64"}
                                             THEN LET tc == TextCells(e.out, 1, << >>) IN
                                                  IF tc.ok /\ Len(tc.cells) = 1 /\ ~tc.cells[1].null THEN Append(@, <<c.t, c.le, tc.cells[1].b>>) ELSE @
                                             ELSE @]
               /\ viol' = viol \cup vs
       [] e.e = "end" ->
            LET m0 == IF m.eintr /\ e.result # "ok" THEN [m EXCEPT !.fault = TRUE, !.dead = IF @ = "" THEN "transport fault" ELSE @] ELSE m
                r0 == Consume(Advance(m0), viol, l, TRUE)
                mm == r0.m
                res == e.result
                \* the client closed the connection at a command boundary (whether the server served what it had
                \* received is another matter: C02/C12)
                clean == (mm.eof \/ mm.closing) /\ mm.inb = << >> /\ mm.phase # "greet" /\ mm.hsdone /\ ~mm.partial
                expectOk == mm.dead = "" /\ (mm.quit \/ clean)
                vres ==
                  IF res = "panic" THEN
                     (IF mm.fault THEN {V("C19", l, "transport fault turned into a panic at " \o e.site)}
                      ELSE IF mm.panics # << >> THEN {V("C20", l, "decoding the parameters of a client's EXECUTE panicked at " \o mm.panics[1])}
                      ELSE IF mm.dead = "shim callback failed" \/ mm.wpanic THEN {V("C19", l, "a failing shim callback ended in a panic instead of an error return at " \o e.site)}
                      ELSE {V("C20", l, "run_on panicked at " \o e.site)})
                  ELSE IF res \in {"livelock", "timeout"} THEN {V("C20", l, "run_on did not terminate")}
                         \cup (IF mm.fault THEN {V("C19", l, "run_on neither returned an error nor Ok after the transport had failed: it does not terminate")} ELSE {})
                  \* (the outcome rule for a clean end does not depend on how the replies looked)
                  ELSE IF mm.lost /\ ~mm.free /\ mm.dead = "" /\ ~mm.fault /\ ~mm.blocked /\ clean /\ res = "err"
                       THEN {V("C19", l, "run_on returned an error although the client closed the connection at a command boundary and nothing had failed")}
                  ELSE IF mm.lost \/ mm.free THEN {}
                  ELSE IF mm.dead # "" THEN
                    (IF res = "ok" THEN {V(DeadTag(mm.dead), l, "run_on returned Ok although: " \o mm.dead)}
                     ELSE IF mm.token >= 0 /\ ~mm.fault /\ (e.err.k # "shim" \/ e.err.token # mm.token)
                          THEN {V(IF mm.dead = "authentication rejected" THEN "C11" ELSE "C19", l, "the shim's error was not returned unchanged")}
                     ELSE {})
                  ELSE IF mm.blocked THEN {}
                  ELSE IF res = "err" /\ ~mm.eof /\ ~mm.quit THEN {V("C19", l, "run_on gave up with an error although nothing had failed")}
                  ELSE IF expectOk /\ res # "ok" THEN {V("C19", l, "run_on returned an error after a clean quit / end of stream")}
                  ELSE IF ~expectOk /\ res = "ok" THEN {V("C19", l, "run_on returned Ok although the stream ended inside a packet or before the handshake completed")}
                  ELSE {}
                vsync == IF res = "ok" /\ ~mm.lost /\ ~mm.free /\ ~mm.blocked
                         THEN SyncViol(mm, l)
                              \cup (IF mm.ob # << >> THEN {V("C04", l, "output ends with bytes that do not form a complete packet exchange")} ELSE {})
                              \cup (IF e.unflushed # 0 THEN {V("C12", l, "run_on returned with unflushed output")} ELSE {})
                         ELSE {}
                \* a panic leaves commands unanswered
                vpanic == IF res = "panic" /\ ~mm.fault /\ mm.dead = "" /\ ~mm.lost /\ ~mm.free
                          THEN LET S == {i \in 1..Len(mm.q) : mm.q[i].cls.reply} IN
                               IF S = {} THEN {}
                               ELSE LET i == CHOOSE i \in S : \A j \in S : i <= j IN
                                    {V("C03", l, "command never answered: run_on panicked")}
                                    \cup (IF mm.q[i].seq = 255 THEN {V("C05", l, "request with sequence id 255 is not answered with sequence id 0 (panic)")} ELSE {})
                          ELSE {}
                \* a connection that was upgraded to TLS and on which nothing failed must be served to the end
                vtls == IF mm.ctls /\ mm.enc /\ mm.dead = "" /\ ~mm.fault /\ ~mm.free /\ ~mm.partial /\ res # "ok"
                        THEN {V("C18", l, "connection not served after the TLS upgrade (result " \o res \o ")")} ELSE {}
                vmissed == IF res = "ok" /\ ~mm.lost /\ ~mm.free /\ mm.dead = "" /\ ~mm.quit /\ FirstNew(mm.q) # 0 /\ mm.q[FirstNew(mm.q)].cls.cb # ""
                           THEN {V("C02", l, "a command never reached its callback " \o mm.q[FirstNew(mm.q)].cls.cb)}
                                \cup (IF mm.q[FirstNew(mm.q)].cls.kind = "close" THEN {V("C10", l, "a COM_STMT_CLOSE never reached on_close")} ELSE {})
                           ELSE {}
                \* the connection ended with an error exactly where a live statement id was to be used (C10)
                vrefused == IF res = "err" /\ mm.dead = "" /\ ~mm.fault /\ ~mm.lost /\ ~mm.free /\ FirstNew(mm.q) # 0
                               /\ mm.q[FirstNew(mm.q)].cls.kind = "execute" /\ RegFind(mm.reg, mm.q[FirstNew(mm.q)].cls.arg) # 0
                            THEN {V("C10", l, "an execution of a live statement id was refused (the id was prepared and never closed)")} ELSE {}
                \* a well-formed handshake response must reach after_authentication (C11)
                vhs == IF res = "err" /\ mm.dead = "" /\ ~mm.fault /\ ~mm.lost /\ ~mm.free /\ FirstNew(mm.q) # 0
                          /\ mm.q[FirstNew(mm.q)].cls.kind = "hs"
                       THEN {V("C11", l, "a well-formed handshake response was refused: after_authentication was never called")} ELSE {}
                \* the server ended the connection on its own in the middle of a well-formed command stream:
                \* whatever the client sent or was about to send never reaches the shim under this read schedule (C01)
                vundeliv == IF res \in {"panic", "err"} /\ ~mm.fault /\ mm.dead = "" /\ ~mm.lost /\ ~mm.free /\ ~mm.blocked
                               /\ ~mm.eof /\ ~mm.quit /\ ~mm.wpanic /\ mm.panics = << >> /\ ~(mm.ctls /\ ~mm.enc)
                            THEN {V("C01", l, "the connection ended (" \o res \o ") in the middle of a well-formed command stream: commands the client sent never reach the shim")}
                                 \cup (IF FirstNew(mm.q) # 0 /\ mm.q[FirstNew(mm.q)].cls.cb # ""
                                       THEN {V("C02", l, "a command never reached its callback " \o mm.q[FirstNew(mm.q)].cls.cb \o ": the connection ended (" \o res \o ") although nothing had failed")}
                                            \cup (IF mm.q[FirstNew(mm.q)].cls.kind = "close" THEN {V("C10", l, "a COM_STMT_CLOSE never reached on_close: the connection ended instead")} ELSE {})
                                       ELSE {})
                            ELSE {}
                \* a rejected login is answered with ERR 1045: written but never flushed is not "received"
                vrej == IF mm.dead = "authentication rejected" /\ ~mm.fault /\ e.unflushed # 0
                        THEN {V("C11", l, "the ERR packet for the rejected login was never flushed to the client")} ELSE {}
                vblock == (IF mm.blocked /\ ~mm.lost THEN {V("C12", l, "lock-step client blocked: the server waited for input while the client was waiting for a reply")} ELSE {})
                          \cup (IF mm.blocked /\ ~mm.free /\ ~mm.fault /\ mm.dead = "" /\ FirstNew(mm.q) # 0 /\ mm.q[FirstNew(mm.q)].cls.cb # ""
                                THEN {V("C02", l, "a command that had arrived completely never reached its callback " \o mm.q[FirstNew(mm.q)].cls.cb \o ": the server waited for more input instead"),
                                      V("C01", l, "a command that had arrived completely was not delivered to the shim under this read schedule")}
                                ELSE {})
            IN /\ m' = [mm EXCEPT !.done = TRUE]
               /\ viol' = r0.v \cup vres \cup vsync \cup vblock \cup vpanic \cup vtls \cup vmissed \cup vrefused \cup vhs \cup vundeliv \cup vrej
       [] OTHER -> UNCHANGED <<m, viol>>

Spec == Init /\ [][Step]_vars

\* one VERDICT line per run, printed when the state after its `end` event is reached
Verdict ==
  m.done => PrintT(<<"VERDICT", ToJson([run |-> m.run, viol |-> viol, stats |-> m.n, floats |-> m.floats,
                                          flags |-> [lost |-> m.lost, free |-> m.free, dead |-> m.dead, quit |-> m.quit]])>>)
Accepted == IF TLCGet("stats").diameter - 1 = Len(Rec) THEN TRUE
            ELSE Print(<<"NOT-ALL-EVENTS-CONSUMED", TLCGet("stats").diameter - 1, Len(Rec)>>, FALSE)
=============================================================================
