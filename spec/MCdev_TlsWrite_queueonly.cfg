SPECIFICATION Spec
CONSTANTS
  Limit = 4
  MaxTotal = 12
  MaxPkt = 9
  QueueOnly = TRUE
INVARIANTS P_C18w
CHECK_DEADLOCK FALSE
