------------------------------- MODULE Bytes -------------------------------
(***************************************************************************)
(* Byte strings are sequences of integers 0..255.  64-bit quantities are   *)
(* 8-byte little-endian tuples ("U64"), because TLC integers are 32-bit.   *)
(* 32-bit quantities that may exceed 2^31-1 (statement ids) are 4-byte     *)
(* tuples.                                                                 *)
(***************************************************************************)
EXTENDS Integers, Sequences

Le16(s, i) == s[i] + 256 * s[i + 1]
Le24(s, i) == s[i] + 256 * s[i + 1] + 65536 * s[i + 2]
\* n bytes of s starting at position i (1-based)
Sub(s, i, n) == SubSeq(s, i, i + n - 1)
From(s, i) == SubSeq(s, i, Len(s))

Z8 == <<0, 0, 0, 0, 0, 0, 0, 0>>
FF8 == <<255, 255, 255, 255, 255, 255, 255, 255>>
Pad8(t) == t \o SubSeq(Z8, 1, 8 - Len(t))
\* sign-extend a little-endian two's complement tuple of 1,2,4 or 8 bytes to 8 bytes
SExt8(t) == IF t[Len(t)] >= 128 THEN t \o SubSeq(FF8, 1, 8 - Len(t)) ELSE Pad8(t)
IsNeg8(v) == v[8] >= 128

\* U64 -> small natural, when it fits comfortably in a TLC integer
U64Small(v) == v[4] < 64 /\ v[5] = 0 /\ v[6] = 0 /\ v[7] = 0 /\ v[8] = 0
U64Int(v) == v[1] + 256 * v[2] + 65536 * v[3] + 16777216 * v[4]
IntU64(n) == <<n % 256, (n \div 256) % 256, (n \div 65536) % 256, (n \div 16777216) % 256, 0, 0, 0, 0>>

\* ---- limb arithmetic on U64 (all intermediates < 2^16) ----
RECURSIVE MulAddFrom(_, _, _, _)
\* v*k + c starting at limb i; returns <<limbs from i.., carryout>>
MulAddFrom(v, k, c, i) ==
  IF i > 8 THEN <<<< >>, c>>
  ELSE LET t == v[i] * k + c
           r == MulAddFrom(v, k, t \div 256, i + 1)
       IN <<<<t % 256>> \o r[1], r[2]>>
\* [v |-> v*k+c mod 2^64, ovf |-> carry out # 0]   (k <= 255, c <= 255)
U64MulAdd(v, k, c) == LET r == MulAddFrom(v, k, c, 1) IN [v |-> r[1], ovf |-> r[2] # 0]

RECURSIVE NegFrom(_, _, _)
NegFrom(v, c, i) ==
  IF i > 8 THEN << >>
  ELSE LET t == (255 - v[i]) + c IN <<t % 256>> \o NegFrom(v, t \div 256, i + 1)
\* two's complement negation
U64Neg(v) == NegFrom(v, 1, 1)

RECURSIVE U64LtFrom(_, _, _)
U64LtFrom(a, b, i) == IF i = 0 THEN FALSE
                      ELSE IF a[i] # b[i] THEN a[i] < b[i]
                      ELSE U64LtFrom(a, b, i - 1)
U64Lt(a, b) == U64LtFrom(a, b, 8)
U64Le(a, b) == a = b \/ U64Lt(a, b)
\* signed comparison of two's complement values
I64Le(a, b) == IF IsNeg8(a) # IsNeg8(b) THEN IsNeg8(a) ELSE U64Le(a, b)

\* ---- decimal text -> U64 ----
IsDigit(b) == b >= 48 /\ b <= 57
RECURSIVE DecFrom(_, _, _)
DecFrom(s, i, acc) ==
  IF i > Len(s) THEN [ok |-> TRUE, v |-> acc]
  ELSE IF ~IsDigit(s[i]) THEN [ok |-> FALSE, v |-> acc]
  ELSE LET r == U64MulAdd(acc, 10, s[i] - 48) IN
       IF r.ovf THEN [ok |-> FALSE, v |-> acc] ELSE DecFrom(s, i + 1, r.v)
\* unsigned decimal (at least one digit, at most 20)
DecU64(s) == IF Len(s) = 0 \/ Len(s) > 20 THEN [ok |-> FALSE, v |-> Z8] ELSE DecFrom(s, 1, Z8)
\* signed decimal -> two's complement; "-0" style texts are rejected as non-canonical
DecI64(s) ==
  IF Len(s) > 0 /\ s[1] = 45
  THEN LET r == DecU64(Tail(s)) IN
       IF ~r.ok \/ r.v = Z8 THEN [ok |-> FALSE, v |-> Z8]
       ELSE LET n == U64Neg(r.v) IN
            \* magnitude must be <= 2^63
            IF IsNeg8(n) THEN [ok |-> TRUE, v |-> n] ELSE [ok |-> FALSE, v |-> Z8]
  ELSE LET r == DecU64(s) IN
       IF r.ok /\ ~IsNeg8(r.v) THEN r ELSE [ok |-> FALSE, v |-> Z8]
\* small decimal number (fits an Int), used for date/time fields
RECURSIVE DecSmallFrom(_, _, _)
DecSmallFrom(s, i, acc) ==
  IF i > Len(s) THEN acc
  ELSE IF ~IsDigit(s[i]) \/ acc < 0 \/ acc > 99999999 THEN -1
  ELSE DecSmallFrom(s, i + 1, acc * 10 + (s[i] - 48))
DecSmall(s) == IF Len(s) = 0 THEN -1 ELSE DecSmallFrom(s, 1, 0)

\* ---- UTF-8 validity (the well-formed byte sequences of Unicode table 3-7) ----
\* Stated without recursion (a quantifier over positions), so that TLC evaluates it iteratively:
\* every lead byte is followed by the right number of continuation bytes in the right ranges, and
\* every continuation byte is claimed by the nearest preceding lead byte.
IsContByte(b) == b >= 128 /\ b <= 191
\* length of the sequence announced by lead byte b (0 = not a legal lead byte)
SeqLen(b) == IF b < 128 THEN 1 ELSE IF b >= 194 /\ b <= 223 THEN 2 ELSE IF b >= 224 /\ b <= 239 THEN 3 ELSE IF b >= 240 /\ b <= 244 THEN 4 ELSE 0
\* admissible range of the second byte after lead byte b
Second(b, c) == IF b = 224 THEN c >= 160 /\ c <= 191
                ELSE IF b = 237 THEN c >= 128 /\ c <= 159
                ELSE IF b = 240 THEN c >= 144 /\ c <= 191
                ELSE IF b = 244 THEN c >= 128 /\ c <= 143
                ELSE IsContByte(c)
IsUtf8(s) ==
  LET n == Len(s) IN
  \A i \in 1..n :
    LET b == s[i] IN
    IF IsContByte(b) THEN
      \* claimed by a lead byte 1..3 positions back, with only continuation bytes in between
      \/ (i >= 2 /\ ~IsContByte(s[i - 1]) /\ SeqLen(s[i - 1]) >= 2)
      \/ (i >= 3 /\ IsContByte(s[i - 1]) /\ ~IsContByte(s[i - 2]) /\ SeqLen(s[i - 2]) >= 3)
      \/ (i >= 4 /\ IsContByte(s[i - 1]) /\ IsContByte(s[i - 2]) /\ ~IsContByte(s[i - 3]) /\ SeqLen(s[i - 3]) = 4)
    ELSE LET L == SeqLen(b) IN
      /\ L >= 1 /\ i + L - 1 <= n
      /\ (L >= 2 => Second(b, s[i + 1]))
      /\ (L >= 3 => IsContByte(s[i + 2]))
      /\ (L = 4 => IsContByte(s[i + 3]))

\* ---- length-encoded integers / strings at position i of s ----
LBad == [ok |-> FALSE, null |-> FALSE, v |-> Z8, next |-> 0]
LenencAt(s, i) ==
  IF i > Len(s) THEN LBad
  ELSE LET b == s[i] IN
    IF b < 251 THEN [ok |-> TRUE, null |-> FALSE, v |-> Pad8(<<b>>), next |-> i + 1]
    ELSE IF b = 251 THEN [ok |-> TRUE, null |-> TRUE, v |-> Z8, next |-> i + 1]
    ELSE IF b = 252 THEN (IF i + 2 <= Len(s) THEN [ok |-> TRUE, null |-> FALSE, v |-> Pad8(Sub(s, i + 1, 2)), next |-> i + 3] ELSE LBad)
    ELSE IF b = 253 THEN (IF i + 3 <= Len(s) THEN [ok |-> TRUE, null |-> FALSE, v |-> Pad8(Sub(s, i + 1, 3)), next |-> i + 4] ELSE LBad)
    ELSE IF b = 254 THEN (IF i + 8 <= Len(s) THEN [ok |-> TRUE, null |-> FALSE, v |-> Sub(s, i + 1, 8), next |-> i + 9] ELSE LBad)
    ELSE LBad
\* the canonical (shortest-class) encoding of a U64, as MySQL writes it
LenencEnc(v) ==
  IF U64Small(v) /\ U64Int(v) < 251 THEN <<v[1]>>
  ELSE IF v[3] = 0 /\ v[4] = 0 /\ v[5] = 0 /\ v[6] = 0 /\ v[7] = 0 /\ v[8] = 0 THEN <<252, v[1], v[2]>>
  ELSE IF v[4] = 0 /\ v[5] = 0 /\ v[6] = 0 /\ v[7] = 0 /\ v[8] = 0 THEN <<253, v[1], v[2], v[3]>>
  ELSE <<254>> \o v
SBad == [ok |-> FALSE, null |-> FALSE, b |-> << >>, next |-> 0]
LenencStrAt(s, i) ==
  LET h == LenencAt(s, i) IN
  IF ~h.ok THEN SBad
  ELSE IF h.null THEN [ok |-> TRUE, null |-> TRUE, b |-> << >>, next |-> h.next]
  ELSE IF ~U64Small(h.v) THEN SBad
  ELSE LET n == U64Int(h.v) IN
       IF h.next + n - 1 > Len(s) THEN SBad
       ELSE [ok |-> TRUE, null |-> FALSE, b |-> Sub(s, h.next, n), next |-> h.next + n]
=============================================================================
