SPECIFICATION Spec
CONSTANTS
  PLen = 6
  MaxT = 6
  KeepRemaining = FALSE
  PrependNothing = FALSE
  PrependFromStart = TRUE
INVARIANT P_C18
CHECK_DEADLOCK FALSE
