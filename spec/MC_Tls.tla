------------------------------- MODULE MC_Tls -------------------------------
(***************************************************************************)
(* Byte accounting across the TLS upgrade (packet.rs switch_to_tls,        *)
(* tls.rs PrependedReader / SwitchableConn).  The client stream is         *)
(*   wire = P \o T    P = the plaintext SSL request packet, T = TLS bytes  *)
(* and the transport may split or coalesce it arbitrarily, so the read     *)
(* that completes P may already contain a prefix of T.                     *)
(* Property (C18): every byte of T is interpreted as TLS traffic exactly   *)
(* once and in order - consumed \o still-prepended \o still-unread = T at   *)
(* all times, and no byte of T is ever parsed as a MySQL packet.           *)
(* Deviations: KeepRemaining (remaining := 0 forgotten), PrependNothing,   *)
(* PrependFromStart (hand over bytes[start..] including P).                *)
(***************************************************************************)
EXTENDS Integers, Sequences, TLC, FiniteSets
CONSTANTS PLen, MaxT, KeepRemaining, PrependNothing, PrependFromStart

VARIABLES wire, sent, bytes, start, remaining, pc, prepended, tlsIn, reinterp, tlen
vars == <<wire, sent, bytes, start, remaining, pc, prepended, tlsIn, reinterp, tlen>>

\* P: header of a packet with PLen - 4 payload bytes (values 1..), T: bytes 101, 102, ...
P == <<PLen - 4, 0, 0, 1>> \o [i \in 1..(PLen - 4) |-> i]
T(n) == [i \in 1..n |-> 100 + i]

Init == /\ tlen \in 0..MaxT /\ wire = P \o T(tlen)
        /\ sent = 0 /\ bytes = << >> /\ start = 0 /\ remaining = 0 /\ pc = "idle"
        /\ prepended = << >> /\ tlsIn = << >> /\ reinterp = FALSE

HasPacket(s) == Len(s) >= 4 /\ Len(s) >= 4 + s[1]
\* ---- plaintext phase: PacketConn::next() until the SSL request is delivered ----
Enter == /\ pc = "idle" /\ start' = Len(bytes) - remaining /\ pc' = "try"
         /\ UNCHANGED <<wire, sent, bytes, remaining, prepended, tlsIn, reinterp, tlen>>
Try == /\ pc = "try"
       /\ LET s == SubSeq(bytes, start + 1, Len(bytes)) IN
          IF remaining # 0 /\ HasPacket(s)
          THEN /\ remaining' = Len(s) - (4 + s[1]) /\ pc' = "switch"
          ELSE /\ pc' = "need" /\ UNCHANGED remaining
       /\ UNCHANGED <<wire, sent, bytes, start, prepended, tlsIn, reinterp, tlen>>
Read == /\ pc = "need" /\ sent < Len(wire)
        /\ \E k \in 1..(Len(wire) - sent) :
             /\ bytes' = SubSeq(bytes, start + 1, Len(bytes)) \o SubSeq(wire, sent + 1, sent + k) /\ sent' = sent + k
        /\ remaining' = Len(bytes') /\ start' = 0 /\ pc' = "try"
        /\ UNCHANGED <<wire, prepended, tlsIn, reinterp, tlen>>
\* switch_to_tls: hand the unconsumed tail of the buffer to the TLS layer
Switch == /\ pc = "switch"
          /\ prepended' = IF PrependNothing THEN << >>
                          ELSE IF PrependFromStart THEN SubSeq(bytes, start + 1, Len(bytes))
                          ELSE SubSeq(bytes, Len(bytes) - remaining + 1, Len(bytes))
          /\ remaining' = IF KeepRemaining THEN remaining ELSE 0
          /\ pc' = "tls"
          /\ UNCHANGED <<wire, sent, bytes, start, tlsIn, reinterp, tlen>>
\* ---- TLS phase: the TLS layer reads through PrependedReader = prepended bytes, then the socket ----
TlsRead == /\ pc = "tls"
           /\ \/ /\ prepended # << >>
                 /\ \E k \in 1..Len(prepended) : tlsIn' = tlsIn \o SubSeq(prepended, 1, k) /\ prepended' = SubSeq(prepended, k + 1, Len(prepended))
                 /\ UNCHANGED sent
              \/ /\ prepended = << >> /\ sent < Len(wire)
                 /\ \E k \in 1..(Len(wire) - sent) : tlsIn' = tlsIn \o SubSeq(wire, sent + 1, sent + k) /\ sent' = sent + k
                 /\ UNCHANGED prepended
           /\ UNCHANGED <<wire, bytes, start, remaining, pc, reinterp, tlen>>
\* the next PacketConn::next() after the switch: parses its own buffer first if remaining # 0
NextAfter == /\ pc = "tls" /\ remaining # 0 /\ ~reinterp
             /\ reinterp' = TRUE
             /\ UNCHANGED <<wire, sent, bytes, start, remaining, pc, prepended, tlsIn, tlen>>
Next == Enter \/ Try \/ Read \/ Switch \/ TlsRead \/ NextAfter
Spec == Init /\ [][Next]_vars

Unread == SubSeq(wire, sent + 1, Len(wire))
P_C18 == /\ ~reinterp                                                       \* no TLS byte parsed as a MySQL packet
         /\ (pc = "tls") => tlsIn \o prepended \o Unread = T(tlen)           \* exactly once, in order
=============================================================================
