------------------------------ MODULE MC_Codec ------------------------------
(***************************************************************************)
(* The codec oracle checks itself: for boundary sets of every kind of      *)
(* value, Decode(Encode(x)) = x where Encode is the server-side layout     *)
(* (Encoders.tla) and Decode the client side (ClientDecoder/Codec.tla).    *)
(* One TLC state per case (`case` ranges over the test set), so the state  *)
(* count reported is the number of cases evaluated.  Covers the oracles of *)
(* C06 (text values), C07 (binary values, NULL bitmap), C09 (column        *)
(* definitions), C13 (ERR packets, table consistency), C14 (OK packets,    *)
(* length-encoded integers), C15 (integer acceptance relation).            *)
(***************************************************************************)
EXTENDS Encoders, FiniteSets

VARIABLE case
U(a, b, c, d, e, f, g, h) == <<a, b, c, d, e, f, g, h>>
U64s == {Z8, IntU64(1), IntU64(250), IntU64(251), IntU64(252), IntU64(65535), IntU64(65536), IntU64(16777215), IntU64(16777216),
         U(255, 255, 255, 255, 0, 0, 0, 0), U(0, 0, 0, 0, 1, 0, 0, 0), U(255, 255, 255, 255, 255, 255, 255, 127),
         U(0, 0, 0, 0, 0, 0, 0, 128), FF8}
Names == {<< >>, <<97>>, [i \in 1..250 |-> 97 + (i % 26)], [i \in 1..251 |-> 65 + (i % 26)], [i \in 1..300 |-> 48 + (i % 10)], <<195, 169>>}
ColTypes == {0, 1, 2, 3, 4, 5, 7, 8, 9, 10, 11, 12, 13, 15, 16, 245, 246, 249, 252, 253, 254, 255}
Flags == {0, 1, 32, 33, 4097, 65535}
Dates == {<<0, 1, 1>>, <<9999, 12, 31>>, <<2024, 2, 29>>, <<1, 10, 5>>}
Times == {<<0, 0, 0, 0>>, <<23, 59, 59, 999999>>, <<1, 2, 3, 0>>, <<0, 0, 0, 5>>, <<12, 0, 0, 100000>>}
Durs == {<<0, 0>>, <<59, 0>>, <<3600, 0>>, <<86399, 999999>>, <<86400, 1>>, <<3020399, 0>>, <<2937600, 500000>>}
IntLes == {Z8, IntU64(5), IntU64(127), IntU64(128), IntU64(255), IntU64(32767), IntU64(65535), FF8, U(251, 255, 255, 255, 255, 255, 255, 255),
           U(128, 255, 255, 255, 255, 255, 255, 255), U(0, 0, 0, 128, 255, 255, 255, 255), U(255, 255, 255, 127, 0, 0, 0, 0)}
RustKinds == {"i8", "u8", "i16", "u16", "i32", "u32", "i64", "u64", "isize", "usize"}
IntColTys == {1, 2, 13, 9, 3, 8}

Cases ==
  {[k |-> "lenenc", v |-> v] : v \in U64s}
  \cup {[k |-> "ok", r |-> r, i |-> i, st |-> st] : r \in U64s, i \in {Z8, IntU64(251), FF8}, st \in {0, 8}}
  \cup {[k |-> "err", kind |-> kd, msg |-> m] : kd \in {"ER_NO", "ER_ACCESS_DENIED_ERROR", "ER_PARSE_ERROR", "ER_DUP_ENTRY"},
                                                m \in {<< >>, <<35>>, <<255, 0, 35, 72>>, [i \in 1..600 |-> 120]}}
  \cup {[k |-> "coldef", t |-> t, n |-> n, ty |-> ty, fl |-> fl] : t \in {<< >>, <<116>>}, n \in Names, ty \in ColTypes, fl \in Flags}
  \cup {[k |-> "date", v |-> d] : d \in Dates}
  \cup {[k |-> "dt", v |-> d \o t] : d \in Dates, t \in Times}
  \cup {[k |-> "time", v |-> d] : d \in Durs}
  \cup {[k |-> "int", le |-> le, ty |-> ty, fl |-> fl] : le \in IntLes, ty \in IntColTys, fl \in {0, 32}}
  \cup {[k |-> "bitmap", n |-> n, nulls |-> S] : n \in 1..10, S \in SUBSET (1..4)} \cup {[k |-> "bitmap", n |-> n, nulls |-> {n}] : n \in {14, 15, 16, 17}}
  \cup {[k |-> "accept", rk |-> rk, ty |-> ty, fl |-> fl] : rk \in RustKinds, ty \in IntColTys, fl \in {0, 32}}
  \cup {[k |-> "f32", le |-> le] : le \in {<<0, 0, 0, 0>>, <<0, 0, 128, 63>>, <<1, 0, 0, 0>>, <<255, 255, 127, 0>>, <<0, 0, 128, 0>>, <<255, 255, 127, 127>>, <<0, 0, 128, 127>>, <<0, 0, 128, 255>>, <<219, 15, 73, 64>>}}
  \cup {[k |-> "dectext", t |-> "i"], [k |-> "dectext", t |-> "u"], [k |-> "errtable"]}

Init == case \in Cases
Next == UNCHANGED case
Spec == Init /\ [][Next]_case

ColsOf(n) == [i \in 1..n |-> [t |-> <<116>>, n |-> <<99>>, ty |-> 1, fl |-> 0]]
DColsOf(n) == [i \in 1..n |-> [table |-> <<116>>, name |-> <<99>>, ty |-> 1, fl |-> 0]]
OneByte == [t |-> "int", le |-> IntU64(7), s |-> TRUE]
\* what f32 -> f64 widening must give for the listed single-precision patterns (computed by hand / IEEE-754)
F64Of(le) == CASE le = <<0, 0, 0, 0>> -> Z8
               [] le = <<0, 0, 128, 63>> -> <<0, 0, 0, 0, 0, 0, 240, 63>>            \* 1.0
               [] le = <<1, 0, 0, 0>> -> <<0, 0, 0, 0, 0, 0, 160, 54>>               \* 2^-149
               [] le = <<255, 255, 127, 0>> -> <<0, 0, 0, 192, 255, 255, 15, 56>>   \* largest subnormal
               [] le = <<0, 0, 128, 0>> -> <<0, 0, 0, 0, 0, 0, 16, 56>>              \* 2^-126
               [] le = <<255, 255, 127, 127>> -> <<0, 0, 0, 224, 255, 255, 239, 71>> \* f32::MAX
               [] le = <<0, 0, 128, 127>> -> <<0, 0, 0, 0, 0, 0, 240, 127>>          \* +inf
               [] le = <<0, 0, 128, 255>> -> <<0, 0, 0, 0, 0, 0, 240, 255>>          \* -inf
               [] OTHER -> <<0, 0, 0, 96, 251, 33, 9, 64>>                            \* 3.1415927f

Holds(c) ==
  CASE c.k = "lenenc" -> LET e == LenencEnc(c.v) d == LenencAt(e, 1) IN d.ok /\ ~d.null /\ d.v = c.v /\ d.next = Len(e) + 1
    [] c.k = "ok" -> LET d == DecOk(OkPkt(c.r, c.i, c.st)) IN d.ok /\ d.exact /\ d.u.rows = c.r /\ d.u.id = c.i /\ d.u.status = c.st /\ HasMore(d.u.status) = (c.st = 8)
    [] c.k = "err" -> LET d == DecErr(ErrPkt(c.kind, c.msg)) IN d.ok /\ ErrCmp(d.u, c.kind, c.msg, 0) = {}
    [] c.k = "coldef" -> LET col == [t |-> c.t, n |-> c.n, ty |-> c.ty, fl |-> c.fl]
                             d == DecColDef(ColDefPkt(col, FALSE), FALSE)
                             f == DecColDef(ColDefPkt(col, TRUE), TRUE)
                         IN d.ok /\ ColCmp(d.c, col, 0) = {} /\ f.ok /\ ColCmp(f.c, col, 0) = {} /\ ~DecColDef(ColDefPkt(col, TRUE), FALSE).ok
    [] c.k = "date" -> LET v == [t |-> "date", v |-> c.v] IN
                       /\ TextCellCheck([null |-> FALSE, b |-> TextOf(v)], v) = ""
                       /\ LET d == BinCellAt(BinValEnc(v, 10, 0), 1, 10, 0) IN d.ok /\ BinMatch(d.d, v)
    [] c.k = "dt" -> LET v == [t |-> "dt", v |-> c.v] IN
                     /\ TextCellCheck([null |-> FALSE, b |-> TextOf(v)], v) = ""
                     /\ LET d == BinCellAt(BinValEnc(v, 12, 0), 1, 12, 0) IN d.ok /\ BinMatch(d.d, v) /\ d.next = Len(BinValEnc(v, 12, 0)) + 1
    [] c.k = "time" -> LET v == [t |-> "time", v |-> c.v] IN
                       /\ TextCellCheck([null |-> FALSE, b |-> TextOf(v)], v) = ""
                       /\ LET d == BinCellAt(BinValEnc(v, 11, 0), 1, 11, 0) IN d.ok /\ BinMatch(d.d, v)
    [] c.k = "int" -> \* a value that the column can represent round-trips at the column's width and signedness
         LET signed == ~IsUnsigned(c.fl)
             v == [t |-> "int", le |-> c.le, s |-> signed]
             m == MathOf(c.le, signed)
         IN InRange(m, ColRange(c.ty, c.fl)) =>
              LET d == BinCellAt(BinValEnc(v, c.ty, c.fl), 1, c.ty, c.fl) IN d.ok /\ BinMatch(d.d, v) /\ d.next = IntWidth(c.ty) + 1
    [] c.k = "bitmap" ->
         LET cells == [i \in 1..c.n |-> IF i \in c.nulls THEN [t |-> "null"] ELSE OneByte]
             p == BinRowPkt(cells, ColsOf(c.n))
         IN /\ BinRowCmp(p, DColsOf(c.n), cells, 0) = {}
            /\ Len(p) = 1 + ((c.n + 9) \div 8) + (c.n - Cardinality(c.nulls \cap (1..c.n)))
            \* flipping one cell's NULL-ness must be noticed
            /\ BinRowCmp(p, DColsOf(c.n), [cells EXCEPT ![1] = IF @.t = "null" THEN OneByte ELSE [t |-> "null"]], 0) # {}
    [] c.k = "accept" -> \* the range formulation agrees with the bit-width formulation
         LET kb == RustBits(c.rk) ks == RustSigned(c.rk) cb == 8 * IntWidth(c.ty) cs == ~IsUnsigned(c.fl)
             fits == IF ks THEN cs /\ cb >= kb ELSE (IF cs THEN cb > kb ELSE cb >= kb)
         IN c.rk \in {"isize", "usize"} \/ (MustAccept(c.rk, [neg |-> FALSE, mag |-> Z8], c.ty, c.fl) = fits)
    [] c.k = "f32" -> F32ToF64(c.le) = F64Of(c.le)
    [] c.k = "dectext" ->
         IF c.t = "i" THEN /\ DecI64(<<45, 57, 50, 50, 51, 51, 55, 50, 48, 51, 54, 56, 53, 52, 55, 55, 53, 56, 48, 56>>).v = U(0, 0, 0, 0, 0, 0, 0, 128)
                           /\ ~DecI64(<<45, 57, 50, 50, 51, 51, 55, 50, 48, 51, 54, 56, 53, 52, 55, 55, 53, 56, 48, 57>>).ok
                           /\ DecI64(<<57, 50, 50, 51, 51, 55, 50, 48, 51, 54, 56, 53, 52, 55, 55, 53, 56, 48, 55>>).v = U(255, 255, 255, 255, 255, 255, 255, 127)
                           /\ ~DecI64(<<57, 50, 50, 51, 51, 55, 50, 48, 51, 54, 56, 53, 52, 55, 55, 53, 56, 48, 56>>).ok
                           /\ DecI64(<<45, 49>>).v = FF8 /\ ~DecI64(<<45>>).ok /\ ~DecI64(<< >>).ok /\ ~DecI64(<<45, 48>>).ok
         ELSE /\ DecU64(<<49, 56, 52, 52, 54, 55, 52, 52, 48, 55, 51, 55, 48, 57, 53, 53, 49, 54, 49, 53>>).v = FF8
              /\ ~DecU64(<<49, 56, 52, 52, 54, 55, 52, 52, 48, 55, 51, 55, 48, 57, 53, 53, 49, 54, 49, 54>>).ok
              /\ DecU64(<<48>>).v = Z8 /\ ~DecU64(<<49, 32>>).ok /\ ~DecU64(<<43, 49>>).ok
    [] c.k = "errtable" ->
         /\ \A a \in DOMAIN ErrRef : Len(ErrRef[a].state) = 5 /\ ErrRef[a].code >= 1000 /\ ErrRef[a].code < 65536
         /\ \A a, b \in DOMAIN ErrRef : ErrRef[a].code = ErrRef[b].code => a = b
         /\ ErrRef["ER_ACCESS_DENIED_ERROR"].code = 1045 /\ ErrRef["ER_ACCESS_DENIED_ERROR"].state = <<50, 56, 48, 48, 48>>
    [] OTHER -> FALSE
P_Codec == Holds(case)
=============================================================================
