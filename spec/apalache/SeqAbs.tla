------------------------------- MODULE SeqAbs -------------------------------
(***************************************************************************)
(* Counter abstraction of the outbound sequence counter (packet.rs         *)
(* PacketWriter.seq, set_seq; lib.rs set_seq(seq+1) after every command)   *)
(* for an UNBOUNDED number of exchanges, each with an unbounded number of   *)
(* response packets.  req = id of the last packet of the current request   *)
(* (-1 stands for "no request yet": the greeting starts at 0), n = packets  *)
(* emitted in the current exchange, seq = the counter, last = the id that   *)
(* was stamped on the most recent packet of the exchange.                   *)
(* IndInv is an inductive invariant (Apalache: Init => IndInv and           *)
(* IndInv /\ Next => IndInv'); its `last` clause is C05: the k-th packet of *)
(* an exchange carries (req + k) mod 256, for every k (wrap, no stall, no   *)
(* repeat) and whatever the previous exchanges were (restart).              *)
(* This complements the bounded TLC check P_C05 of MC_Framer (<= a dozen    *)
(* packets) and the validated runs with several hundred packets.            *)
(***************************************************************************)
EXTENDS Integers

CONSTANTS
  \* deviation: the counter saturates at 255 instead of wrapping (the pinned tree panicked in debug / stalled)
  \* @type: Bool;
  Saturates,
  \* deviation: the counter is not restarted from the request id when a new command is read
  \* @type: Bool;
  NoRestart,
  \* deviation: a multi-packet request restarts from its FIRST fragment's id instead of its last one
  \* @type: Bool;
  FirstFragment

VARIABLES
  \* @type: Int;
  req,
  \* @type: Int;
  n,
  \* @type: Int;
  seq,
  \* @type: Int;
  last

ConstInit == Saturates = FALSE /\ NoRestart = FALSE /\ FirstFragment = FALSE
ConstInitSaturates == Saturates = TRUE /\ NoRestart = FALSE /\ FirstFragment = FALSE
ConstInitNoRestart == Saturates = FALSE /\ NoRestart = TRUE /\ FirstFragment = FALSE
ConstInitFirstFragment == Saturates = FALSE /\ NoRestart = FALSE /\ FirstFragment = TRUE

Init == req = -1 /\ n = 0 /\ seq = 0 /\ last = -1

\* PacketReader::next delivered a command whose fragments carried ids f, f+1, ..., f+k (mod 256);
\* lib.rs: set_seq(id of the last fragment + 1)
ReadCommand == \E f \in Int, k \in Int :
                 /\ f >= 0 /\ f <= 255 /\ k >= 0
                 /\ req' = (f + k) % 256
                 /\ n' = 0 /\ last' = -1
                 /\ seq' = IF NoRestart THEN seq
                           ELSE IF FirstFragment THEN (f + 1) % 256
                           ELSE (((f + k) % 256) + 1) % 256
\* maybe_end_packet: stamp seq on the header, then advance
EmitPacket == /\ last' = seq
              /\ n' = n + 1
              /\ seq' = IF Saturates THEN (IF seq = 255 THEN 255 ELSE seq + 1) ELSE (seq + 1) % 256
              /\ UNCHANGED req
Next == ReadCommand \/ EmitPacket

IndInv ==
  /\ req >= -1 /\ req <= 255
  /\ n >= 0
  /\ seq >= 0 /\ seq <= 255
  /\ seq = (req + 1 + n) % 256                        \* the counter continues the request and never stalls
  /\ IF n = 0 THEN last = -1 ELSE last = (req + n) % 256   \* C05: the n-th packet carries req + n (mod 256)
IndInit == req \in Int /\ n \in Int /\ seq \in Int /\ last \in Int /\ IndInv
=============================================================================
