----------------------------- MODULE FramerAbs ------------------------------
(***************************************************************************)
(* Counter abstraction of the outbound framer (packet.rs Write::write /     *)
(* maybe_end_packet) for ONE logical message of N bytes, N unbounded, with *)
(* the real PMAX = 2^24-1.  Lengths only: rem (bytes of the message not yet *)
(* written), tw (payload bytes buffered), full (maximal packets emitted),  *)
(* cont (the `continued` flag), closed / lastLen (the closing packet).      *)
(* IndInv is an inductive invariant (checked with Apalache: Init => IndInv *)
(* and IndInv /\ Next => IndInv'); its `closed` clause is C04 for the      *)
(* message: N = full * PMAX + lastLen with 0 <= lastLen < PMAX, and an      *)
(* empty message emits nothing.  This complements the bounded TLC check of *)
(* MC_Framer (byte-exact, small PMAX) with an unbounded-length argument.    *)
(***************************************************************************)
EXTENDS Integers

CONSTANTS
  \* @type: Int;
  N,
  \* deviation: the limit is applied to the buffer that also holds the 4 header bytes (packet.rs as pinned)
  \* @type: Bool;
  HeaderCounts,
  \* deviation: no empty closing packet after a maximal one (packet.rs as pinned)
  \* @type: Bool;
  NoCloser

VARIABLES
  \* @type: Int;
  rem,
  \* @type: Int;
  tw,
  \* @type: Int;
  full,
  \* @type: Bool;
  cont,
  \* @type: Bool;
  closed,
  \* @type: Int;
  lastLen

PMAX == 16777215

ConstInit == N \in Nat /\ HeaderCounts = FALSE /\ NoCloser = FALSE
ConstInitHdr == N \in Nat /\ HeaderCounts = TRUE /\ NoCloser = FALSE
ConstInitNoCloser == N \in Nat /\ HeaderCounts = FALSE /\ NoCloser = TRUE
Cap == IF HeaderCounts THEN PMAX - 4 ELSE PMAX

Init == /\ rem = N /\ tw = 0 /\ full = 0 /\ cont = FALSE /\ closed = FALSE /\ lastLen = -1

\* one iteration of the loop in write_all/write: copy `left` bytes, end the packet when it is full
Fill == /\ ~closed /\ rem > 0
        /\ \E left \in Int :
             /\ left >= 1 /\ left <= rem /\ left <= Cap - tw
             /\ rem' = rem - left
             /\ IF tw + left = Cap
                THEN tw' = 0 /\ full' = full + 1 /\ cont' = TRUE
                ELSE tw' = tw + left /\ full' = full /\ cont' = cont
        /\ UNCHANGED <<closed, lastLen>>
\* end_packet() at the end of the message: skip when empty unless a maximal packet needs its closer
EndPacket == /\ ~closed /\ rem = 0
             /\ closed' = TRUE
             /\ IF tw # 0 \/ (cont /\ ~NoCloser) THEN lastLen' = tw ELSE lastLen' = -1
             /\ cont' = FALSE
             /\ UNCHANGED <<rem, tw, full>>
Done == closed /\ UNCHANGED <<rem, tw, full, cont, closed, lastLen>>
Next == Fill \/ EndPacket \/ Done

IndInv ==
  /\ N >= 0
  /\ rem >= 0 /\ rem <= N
  /\ tw >= 0 /\ tw < PMAX
  /\ full >= 0
  /\ full * PMAX + tw + rem = N                       \* no byte lost or duplicated
  /\ (~closed) => (cont = (full > 0)) /\ lastLen = -1
  /\ closed => /\ rem = 0 /\ ~cont
               /\ IF N = 0 THEN lastLen = -1 /\ full = 0          \* an empty message emits nothing
                  ELSE lastLen = tw /\ lastLen >= 0 /\ lastLen < PMAX /\ full * PMAX + lastLen = N
IndInit == /\ rem \in Int /\ tw \in Int /\ full \in Int /\ lastLen \in Int /\ cont \in BOOLEAN /\ closed \in BOOLEAN
           /\ IndInv
=============================================================================
