----------------------------- MODULE ReaderAbs ------------------------------
(***************************************************************************)
(* Counter abstraction of PacketConn::next (packet.rs) for a client stream *)
(* of unbounded length under arbitrary chunking - lengths only:            *)
(*   sent      bytes the transport has delivered so far                     *)
(*   len       bytes in the buffer, start / remaining as in the code        *)
(*   consumed  bytes handed to the command loop as parts of messages        *)
(* IndInv is inductive (Apalache: Init => IndInv, IndInv /\ Next => IndInv')*)
(* and says that no byte is lost or duplicated between the transport and    *)
(* the parser: consumed + (unparsed bytes in the buffer) = sent.  The two   *)
(* deviations (forgotten drain, stale `remaining`) break the inductive step.*)
(* Message boundaries and contents are MC_Reader's business (bounded, TLC). *)
(***************************************************************************)
EXTENDS Integers

CONSTANTS
  \* @type: Bool;
  NoDrain,
  \* @type: Bool;
  StaleRemaining

VARIABLES
  \* @type: Int;
  sent,
  \* @type: Int;
  len,
  \* @type: Int;
  start,
  \* @type: Int;
  remaining,
  \* @type: Int;
  consumed,
  \* @type: Str;
  pc

ConstInit == NoDrain = FALSE /\ StaleRemaining = FALSE
ConstInitNoDrain == NoDrain = TRUE /\ StaleRemaining = FALSE
ConstInitStale == NoDrain = FALSE /\ StaleRemaining = TRUE

Init == sent = 0 /\ len = 0 /\ start = 0 /\ remaining = 0 /\ consumed = 0 /\ pc = "idle"

\* next(): self.start = self.bytes.len() - self.remaining
Enter == /\ pc = "idle" /\ start' = len - remaining /\ pc' = "try"
         /\ UNCHANGED <<sent, len, remaining, consumed>>
\* packet(&bytes[start..]) succeeds with a message of k bytes, or needs more input
ParseOk == /\ pc = "try" /\ remaining # 0
           /\ \E k \in Int : /\ k >= 4 /\ k <= len - start
                             /\ consumed' = consumed + k
                             /\ remaining' = IF StaleRemaining THEN remaining ELSE len - start - k
           /\ pc' = "idle" /\ UNCHANGED <<sent, len, start>>
ParseMore == /\ pc = "try" /\ pc' = "need" /\ UNCHANGED <<sent, len, start, remaining, consumed>>
\* drain(0..start); read j >= 1 bytes; remaining = bytes.len()
Read == /\ pc = "need"
        /\ \E j \in Int : /\ j >= 1
                          /\ len' = (IF NoDrain THEN len ELSE len - start) + j
                          /\ sent' = sent + j
        /\ start' = 0 /\ remaining' = len' /\ pc' = "try" /\ UNCHANGED consumed
Next == Enter \/ ParseOk \/ ParseMore \/ Read

IndInv ==
  /\ pc \in {"idle", "try", "need"}
  /\ sent >= 0 /\ len >= 0 /\ start >= 0 /\ remaining >= 0 /\ consumed >= 0
  /\ remaining <= len
  /\ (pc = "idle") => consumed + remaining = sent                 \* everything delivered is either parsed or still buffered
  /\ (pc \in {"try", "need"}) => /\ start + remaining = len       \* the unparsed tail is exactly bytes[start..]
                                 /\ consumed + remaining = sent
IndInit == /\ sent \in Int /\ len \in Int /\ start \in Int /\ remaining \in Int /\ consumed \in Int /\ pc \in {"idle", "try", "need"}
           /\ IndInv
=============================================================================
