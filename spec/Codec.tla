------------------------------- MODULE Codec -------------------------------
(***************************************************************************)
(* Client-side value decoding (text and binary protocol) and comparison    *)
(* with the abstract ("canonical") value the shim was told to write.       *)
(*                                                                         *)
(* canonical value c (from the scenario, echoed in `w`/`enc` events):      *)
(*   [t |-> "null"]                                                        *)
(*   [t |-> "int",   le |-> 8 bytes, s |-> signed?]                        *)
(*   [t |-> "f32",   le |-> 4 bytes]      [t |-> "f64", le |-> 8 bytes]    *)
(*   [t |-> "bytes", b  |-> bytes]                                         *)
(*   [t |-> "date",  v  |-> <<y,m,d>>]                                     *)
(*   [t |-> "dt",    v  |-> <<y,m,d,h,mi,s,us>>]                           *)
(*   [t |-> "time",  v  |-> <<total seconds, microseconds>>]               *)
(***************************************************************************)
EXTENDS ClientDecoder

\* mathematical integer as [neg, mag]
MathOf(le, signed) == IF signed /\ IsNeg8(le) THEN [neg |-> TRUE, mag |-> U64Neg(le)]
                      ELSE [neg |-> FALSE, mag |-> le]

\* ---- IEEE-754 single -> double widening on byte tuples (exact) ----
RECURSIVE NormShift(_, _)
NormShift(m, k) == IF m >= 8388608 THEN <<m, k>> ELSE NormShift(m * 2, k + 1)
F32ToF64(b) ==
  LET sign == b[4] \div 128
      e == (b[4] % 128) * 2 + (b[3] \div 128)
      m == (b[3] % 128) * 65536 + b[2] * 256 + b[1]
      em == IF e = 255 THEN <<2047, m>>
            ELSE IF e = 0 /\ m = 0 THEN <<0, 0>>
            ELSE IF e = 0 THEN LET n == NormShift(m, 0) IN <<897 - n[2], n[1] - 8388608>>
            ELSE <<e + 896, m>>
      E == em[1]
      M == em[2]
      M3 == M \div 8
  IN <<0, 0, 0, (M % 8) * 32, M3 % 256, (M3 \div 256) % 256, (E % 16) * 16 + (M3 \div 65536), sign * 128 + (E \div 16)>>

\* ---- text protocol ----
RECURSIVE TextCells(_, _, _)
\* all cells of a text row payload: [ok, cells |-> <<[null, b]...>>]
TextCells(p, i, acc) ==
  IF i > Len(p) THEN [ok |-> TRUE, cells |-> acc]
  ELSE LET c == LenencStrAt(p, i) IN
       IF ~c.ok THEN [ok |-> FALSE, cells |-> acc]
       ELSE TextCells(p, c.next, Append(acc, [null |-> c.null, b |-> c.b]))

D2(s, i) == IF i + 1 <= Len(s) /\ IsDigit(s[i]) /\ IsDigit(s[i + 1]) THEN (s[i] - 48) * 10 + (s[i + 1] - 48) ELSE -1
D4(s, i) == IF D2(s, i) >= 0 /\ D2(s, i + 2) >= 0 THEN D2(s, i) * 100 + D2(s, i + 2) ELSE -1
Pow10(k) == CASE k = 0 -> 1 [] k = 1 -> 10 [] k = 2 -> 100 [] k = 3 -> 1000 [] k = 4 -> 10000 [] k = 5 -> 100000 [] OTHER -> 1000000
\* fraction digits s[i..] (1..6 digits) -> microseconds; -1 if malformed
Frac(s, i) == LET k == Len(s) - i + 1 IN
              IF k < 1 \/ k > 6 THEN -1
              ELSE LET n == DecSmall(From(s, i)) IN IF n < 0 THEN -1 ELSE n * Pow10(6 - k)
BadT == <<-1>>
ParseDate(b) == IF Len(b) = 10 /\ b[5] = 45 /\ b[8] = 45 /\ D4(b, 1) >= 0 /\ D2(b, 6) >= 0 /\ D2(b, 9) >= 0
                THEN <<D4(b, 1), D2(b, 6), D2(b, 9)>> ELSE BadT
ParseDateTime(b) ==
  IF Len(b) < 19 THEN BadT
  ELSE LET d == ParseDate(SubSeq(b, 1, 10))
           h == D2(b, 12)
           mi == D2(b, 15)
           s == D2(b, 18)
           us == IF Len(b) = 19 THEN 0 ELSE IF b[20] = 46 THEN Frac(b, 21) ELSE -1
       IN IF d = BadT \/ b[11] # 32 \/ b[14] # 58 \/ b[17] # 58 \/ h < 0 \/ mi < 0 \/ s < 0 \/ us < 0 THEN BadT
          ELSE d \o <<h, mi, s, us>>
RECURSIVE FindByte(_, _, _)
FindByte(s, x, i) == IF i > Len(s) THEN 0 ELSE IF s[i] = x THEN i ELSE FindByte(s, x, i + 1)
\* [-]h..h:mm:ss[.ffffff] -> <<total seconds, us>>   (negative durations are not produced by the library)
ParseTime(b) ==
  LET c == FindByte(b, 58, 1) IN
  IF c < 3 \/ c > 9 \/ Len(b) < c + 5 THEN BadT
  ELSE LET h == DecSmall(SubSeq(b, 1, c - 1))
           mi == D2(b, c + 1)
           s == D2(b, c + 4)
           us == IF Len(b) = c + 5 THEN 0 ELSE IF b[c + 6] = 46 THEN Frac(b, c + 7) ELSE -1
       IN IF h < 0 \/ mi < 0 \/ mi > 59 \/ s < 0 \/ s > 59 \/ us < 0 \/ b[c + 3] # 58 THEN BadT
          ELSE <<h * 3600 + mi * 60 + s, us>>

\* does text cell (null, b) carry canonical value c?   "" = yes, "float" = needs rational check, else reason
TextCellCheck(cell, c) ==
  IF c.t = "null" THEN (IF cell.null THEN "" ELSE "NULL written, cell is not NULL")
  ELSE IF cell.null THEN "value written, cell is NULL"
  ELSE IF c.t = "int" THEN
      (IF c.s THEN (LET r == DecI64(cell.b) IN IF r.ok /\ r.v = c.le THEN "" ELSE "signed integer text differs")
       ELSE (LET r == DecU64(cell.b) IN IF r.ok /\ r.v = c.le THEN "" ELSE "unsigned integer text differs"))
  ELSE IF c.t \in {"f32", "f64"} THEN "float"
  ELSE IF c.t = "bytes" THEN (IF cell.b = c.b THEN "" ELSE "bytes differ")
  ELSE IF c.t = "date" THEN (IF ParseDate(cell.b) = c.v THEN "" ELSE "date text differs")
  ELSE IF c.t = "dt" THEN (IF ParseDateTime(cell.b) = c.v \/ ("alt" \in DOMAIN c /\ ParseDateTime(cell.b) = c.alt) THEN "" ELSE "datetime text differs")
  ELSE IF c.t = "time" THEN (IF ParseTime(cell.b) = c.v \/ ("alt" \in DOMAIN c /\ ParseTime(cell.b) = c.alt) THEN "" ELSE "time text differs")
  ELSE "unknown canonical kind"

\* ---- binary protocol ----
UNSIGNED == 32
NOTNULL == 1
IsUnsigned(fl) == (fl \div UNSIGNED) % 2 = 1
IsNotNull(fl) == fl % 2 = 1
IntCols == {1, 2, 3, 8, 9, 13}
StrCols == {0, 15, 16, 245, 246, 247, 248, 249, 250, 251, 252, 253, 254, 255}
DateCols == {7, 10, 12}
IntWidth(ty) == CASE ty = 1 -> 1 [] ty \in {2, 13} -> 2 [] ty \in {3, 9} -> 4 [] OTHER -> 8

CBad == [ok |-> FALSE, next |-> 0]
\* value of column type ty (flags fl) at position i of binary row payload p
BinCellAt(p, i, ty, fl) ==
  IF ty \in IntCols THEN
     LET w == IntWidth(ty) IN
     IF i + w - 1 > Len(p) THEN CBad
     ELSE LET raw == Sub(p, i, w)
              v == IF IsUnsigned(fl) THEN MathOf(Pad8(raw), FALSE) ELSE MathOf(SExt8(raw), TRUE)
          IN [ok |-> TRUE, next |-> i + w, d |-> [t |-> "int", m |-> v]]
  ELSE IF ty = 4 THEN (IF i + 3 > Len(p) THEN CBad ELSE [ok |-> TRUE, next |-> i + 4, d |-> [t |-> "f32", le |-> Sub(p, i, 4)]])
  ELSE IF ty = 5 THEN (IF i + 7 > Len(p) THEN CBad ELSE [ok |-> TRUE, next |-> i + 8, d |-> [t |-> "f64", le |-> Sub(p, i, 8)]])
  ELSE IF ty \in StrCols THEN
     LET s == LenencStrAt(p, i) IN
     IF ~s.ok \/ s.null THEN CBad ELSE [ok |-> TRUE, next |-> s.next, d |-> [t |-> "bytes", b |-> s.b]]
  ELSE IF ty \in DateCols THEN
     IF i > Len(p) THEN CBad
     ELSE LET n == p[i] IN
       IF n \notin {0, 4, 7, 11} \/ i + n > Len(p) THEN CBad
       ELSE LET y == IF n >= 4 THEN Le16(p, i + 1) ELSE 0
                mo == IF n >= 4 THEN p[i + 3] ELSE 0
                dd == IF n >= 4 THEN p[i + 4] ELSE 0
                h == IF n >= 7 THEN p[i + 5] ELSE 0
                mi == IF n >= 7 THEN p[i + 6] ELSE 0
                s == IF n >= 7 THEN p[i + 7] ELSE 0
                usb == IF n = 11 THEN Sub(p, i + 8, 4) ELSE <<0, 0, 0, 0>>
            IN IF usb[4] # 0 \/ usb[3] >= 16 THEN CBad   \* microseconds < 2^20
               ELSE [ok |-> TRUE, next |-> i + 1 + n,
                     d |-> [t |-> "dt", v |-> <<y, mo, dd, h, mi, s, usb[1] + 256 * usb[2] + 65536 * usb[3]>>, n |-> n]]
  ELSE IF ty = 11 THEN
     IF i > Len(p) THEN CBad
     ELSE LET n == p[i] IN
       IF n \notin {0, 8, 12} \/ i + n > Len(p) THEN CBad
       ELSE IF n = 0 THEN [ok |-> TRUE, next |-> i + 1, d |-> [t |-> "time", neg |-> FALSE, v |-> <<0, 0>>, n |-> 0]]
       ELSE LET db == Sub(p, i + 2, 4)
                usb == IF n = 12 THEN Sub(p, i + 9, 4) ELSE <<0, 0, 0, 0>>
            IN IF db[4] # 0 \/ db[3] # 0 \/ db[2] >= 64 \/ usb[4] # 0 \/ usb[3] >= 16 THEN CBad   \* days < 2^14 here
               ELSE [ok |-> TRUE, next |-> i + 1 + n,
                     d |-> [t |-> "time", neg |-> p[i + 1] # 0, n |-> n,
                            v |-> <<(db[1] + 256 * db[2]) * 86400 + p[i + 6] * 3600 + p[i + 7] * 60 + p[i + 8],
                                    usb[1] + 256 * usb[2] + 65536 * usb[3]>>]]
  ELSE CBad

\* does decoded binary value d carry canonical c?
BinMatch(d, c) ==
  IF c.t = "int" THEN d.t = "int" /\ d.m = MathOf(c.le, c.s)
  ELSE IF c.t = "f32" THEN (d.t = "f32" /\ d.le = c.le) \/ (d.t = "f64" /\ d.le = F32ToF64(c.le))
  ELSE IF c.t = "f64" THEN d.t = "f64" /\ d.le = c.le
  ELSE IF c.t = "bytes" THEN d.t = "bytes" /\ d.b = c.b
  ELSE IF c.t = "date" THEN d.t = "dt" /\ d.v = c.v \o <<0, 0, 0, 0>>
  ELSE IF c.t = "dt" THEN d.t = "dt" /\ (d.v = c.v \/ ("alt" \in DOMAIN c /\ d.v = c.alt))
  ELSE IF c.t = "time" THEN d.t = "time" /\ ~d.neg /\ (d.v = c.v \/ ("alt" \in DOMAIN c /\ d.v = c.alt))
  ELSE FALSE

\* protocol-level compatibility of a value class with a column type (C07):
\*   "carries"  same family: if accepted it must decode exactly
\*   "refuse"   no faithful encoding exists: the write must be refused
\*   "may"      neither demanded nor forbidden
Compat(c, ty) ==
  \* a MYSQL_TYPE_NULL column carries nothing but NULL (it has no value bytes at all)
  IF ty = 6 THEN "refuse"
  ELSE IF c.t = "int" THEN (IF ty \in IntCols THEN "carries" ELSE IF ty \in DateCols \cup {11} THEN "refuse" ELSE "may")
  ELSE IF c.t = "f32" THEN (IF ty \in {4, 5} THEN "carries" ELSE IF ty \in IntCols \cup DateCols \cup {11} THEN "refuse" ELSE "may")
  ELSE IF c.t = "f64" THEN (IF ty = 5 THEN "carries" ELSE IF ty \in IntCols \cup DateCols \cup {4, 11} THEN "refuse" ELSE "may")
  ELSE IF c.t = "bytes" THEN (IF ty \in StrCols THEN "carries" ELSE IF ty \in IntCols \cup DateCols \cup {4, 5, 11} THEN "refuse" ELSE "may")
  ELSE IF c.t = "date" THEN (IF ty = 10 THEN "carries" ELSE IF ty \in IntCols \cup {4, 5, 11} THEN "refuse" ELSE "may")
  ELSE IF c.t = "dt" THEN (IF ty \in {7, 12} THEN "carries" ELSE IF ty \in IntCols \cup {4, 5, 11} THEN "refuse" ELSE "may")
  ELSE IF c.t = "time" THEN (IF ty = 11 THEN "carries" ELSE IF ty \in IntCols \cup DateCols \cup {4, 5} THEN "refuse" ELSE "may")
  ELSE "may"

\* ---- C15: integer acceptance relation, stated from the ranges (not from the code) ----
\* range of an integer column as [lo, hi] math integers
P2m1(bits) == \* 2^bits - 1 as U64
  CASE bits = 7 -> IntU64(127) [] bits = 8 -> IntU64(255) [] bits = 15 -> IntU64(32767) [] bits = 16 -> IntU64(65535)
    [] bits = 31 -> <<255, 255, 255, 127, 0, 0, 0, 0>> [] bits = 32 -> <<255, 255, 255, 255, 0, 0, 0, 0>>
    [] bits = 63 -> <<255, 255, 255, 255, 255, 255, 255, 127>> [] OTHER -> FF8
P2(bits) == \* 2^bits as U64 (bits in {7,15,31,63})
  CASE bits = 7 -> IntU64(128) [] bits = 15 -> IntU64(32768) [] bits = 31 -> <<0, 0, 0, 128, 0, 0, 0, 0>>
    [] OTHER -> <<0, 0, 0, 0, 0, 0, 0, 128>>
\* math-integer comparison
MLe(a, b) == IF a.neg /\ ~b.neg THEN TRUE
             ELSE IF ~a.neg /\ b.neg THEN a.mag = Z8 /\ b.mag = Z8
             ELSE IF a.neg THEN U64Le(b.mag, a.mag) ELSE U64Le(a.mag, b.mag)
RangeOfBits(bits, signed) ==
  IF signed THEN [lo |-> [neg |-> TRUE, mag |-> P2(bits - 1)], hi |-> [neg |-> FALSE, mag |-> P2m1(bits - 1)]]
  ELSE [lo |-> [neg |-> FALSE, mag |-> Z8], hi |-> [neg |-> FALSE, mag |-> P2m1(bits)]]
ColRange(ty, fl) == RangeOfBits(8 * IntWidth(ty), ~IsUnsigned(fl))
RustBits(k) == CASE k \in {"i8", "u8"} -> 8 [] k \in {"i16", "u16"} -> 16 [] k \in {"i32", "u32"} -> 32 [] OTHER -> 64
RustSigned(k) == k \in {"i8", "i16", "i32", "i64", "isize"}
RustRange(k) == RangeOfBits(RustBits(k), RustSigned(k))
InRange(m, r) == MLe(r.lo, m) /\ MLe(m, r.hi)
SubRange(a, b) == MLe(b.lo, a.lo) /\ MLe(a.hi, b.hi)
\* must the write of Rust integer kind k with value m into integer column (ty, fl) be accepted?
MustAccept(k, m, ty, fl) ==
  IF k \in {"isize", "usize"} THEN InRange(m, ColRange(ty, fl))
  ELSE SubRange(RustRange(k), ColRange(ty, fl))
=============================================================================
