SPECIFICATION Spec
CONSTANT PMAX = 16777215
INVARIANT Verdict
POSTCONDITION Accepted
CHECK_DEADLOCK FALSE
