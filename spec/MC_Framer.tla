----------------------------- MODULE MC_Framer -----------------------------
(***************************************************************************)
(* Operational model of the outbound side of PacketConn (packet.rs):       *)
(*   to_write (4 header bytes + payload so far), seq, continued,           *)
(*   Write::write (fill up to the limit, end the packet when full),        *)
(*   end_packet / maybe_end_packet (skip when empty unless a maximal       *)
(*   packet still needs its closer), set_seq.                              *)
(* Explored for every message length around multiples of a small PMAX and  *)
(* every composition of a message into write() calls.                      *)
(* Properties: (C04) every packet's header length equals its payload       *)
(* length and is <= PMAX; client-side reassembly (Packets!Messages) of the  *)
(* socket bytes yields exactly the logical messages; (C05) sequence ids    *)
(* are consecutive modulo 256 from the id set at the start of the exchange.*)
(* The two deviations are the defects the pinned code had (limit applied   *)
(* to the buffer including the header; no empty closer): TLC must report   *)
(* a violation for each (MCdev_Framer_*.cfg).                              *)
(***************************************************************************)
EXTENDS Packets, TLC, FiniteSets, Json

CONSTANTS MaxMsgs, MaxLen,
          HeaderCountsTowardsLimit,   \* deviation (packet.rs as pinned)
          EmitsEmptyCloser            \* FALSE = deviation (packet.rs as pinned)

VARIABLES lens, seq0, mi, off, toWrite, continued, seq, sock, hist
vars == <<lens, seq0, mi, off, toWrite, continued, seq, sock, hist>>
view == <<lens, seq0, mi, off, toWrite, continued, seq, sock>>

Cap == IF HeaderCountsTowardsLimit THEN PMAX - 4 ELSE PMAX
Msg(i, n) == [j \in 1..n |-> (16 * i + j) % 251]

Init == /\ lens \in UNION {[1..n -> 0..MaxLen] : n \in 1..MaxMsgs}
        /\ seq0 \in {1, 254, 255}
        /\ mi = 1 /\ off = 0 /\ toWrite = << >> /\ continued = FALSE /\ seq = seq0 /\ sock = << >> /\ hist = << >>

\* one transport write: header stamped with the payload length and the sequence id
Emit(p, s) == Hdr(Len(p), s) \o p

RECURSIVE WriteAll(_, _, _, _, _)
\* Write::write_all(buf): repeated write() until the buffer is consumed
WriteAll(buf, tw, sq, out, cont) ==
   IF buf = << >> THEN [tw |-> tw, sq |-> sq, out |-> out, cont |-> cont]
   ELSE LET left == IF Len(buf) < Cap - Len(tw) THEN Len(buf) ELSE Cap - Len(tw)
            tw2  == tw \o SubSeq(buf, 1, left)
            rest == SubSeq(buf, left + 1, Len(buf)) IN
        IF Len(tw2) = Cap
        THEN WriteAll(rest, << >>, (sq + 1) % 256, out \o Emit(tw2, sq), Len(tw2) = PMAX)
        ELSE WriteAll(rest, tw2, sq, out, cont)

\* the shim / a writer writes the next k bytes of the current message
Write == /\ mi <= Len(lens) /\ off < lens[mi]
         /\ \E k \in 1..(lens[mi] - off) :
              LET r == WriteAll(SubSeq(Msg(mi, lens[mi]), off + 1, off + k), toWrite, seq, sock, continued) IN
              /\ toWrite' = r.tw /\ seq' = r.sq /\ sock' = r.out /\ continued' = r.cont /\ off' = off + k
              /\ hist' = Append(hist, k)
         /\ UNCHANGED <<lens, seq0, mi>>
\* every logical message ends with end_packet()
EndPacket == /\ mi <= Len(lens) /\ off = lens[mi]
             /\ IF toWrite # << >> \/ (EmitsEmptyCloser /\ continued)
                THEN sock' = sock \o Emit(toWrite, seq) /\ seq' = (seq + 1) % 256
                ELSE UNCHANGED <<sock, seq>>
             /\ toWrite' = << >> /\ continued' = FALSE /\ mi' = mi + 1 /\ off' = 0
             /\ hist' = Append(hist, 0)
             /\ UNCHANGED <<lens, seq0>>
Next == Write \/ EndPacket
Spec == Init /\ [][Next]_vars

\* ---- properties: what a conformant client reassembles ----
NonEmpty(ls) == SelectSeq([i \in 1..Len(ls) |-> Msg(i, ls[i])], LAMBDA m : m # << >>)
P_C04 == LET r == Messages(sock) IN
         /\ \A i \in 1..Len(Split(sock).pk) : Len(Split(sock).pk[i].p) <= PMAX
         /\ Split(sock).next = Len(sock) + 1                                    \* every byte belongs to a packet
         /\ (mi > Len(lens)) => /\ r.rest = << >>
                                /\ [i \in 1..Len(r.msgs) |-> r.msgs[i].p] = NonEmpty(lens)
P_C05 == LET pk == Split(sock).pk IN \A i \in 1..Len(pk) : pk[i].seq = (seq0 + i - 1) % 256
Done == mi > Len(lens)
EmitReplay == Done => PrintT(<<"REPLAY", ToJson([lens |-> lens, seq0 |-> seq0, writes |-> hist])>>)
=============================================================================
