SPECIFICATION Spec
CONSTANTS
  Ids = {1, 2}
  MaxHist = 4
  FlagConsumedWhenZero = TRUE
  ClearsLongData = TRUE
  RemoveOnClose = TRUE
  ReprepareFresh = TRUE
  ClearsOnlyOwn = TRUE
  KeepsEmptyLong = FALSE
INVARIANTS P_Registry P_Agree
VIEW view
CHECK_DEADLOCK FALSE
