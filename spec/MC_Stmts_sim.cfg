SPECIFICATION Spec
CONSTANTS
  Ids = {1, 2}
  MaxHist = 12
  FlagConsumedWhenZero = TRUE
  ClearsLongData = TRUE
  RemoveOnClose = TRUE
  ReprepareFresh = TRUE
  ClearsOnlyOwn = TRUE
  KeepsEmptyLong = TRUE
INVARIANTS P_Registry P_Agree EmitReplay
CHECK_DEADLOCK FALSE
