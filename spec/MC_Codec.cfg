SPECIFICATION Spec
INVARIANT P_Codec
CHECK_DEADLOCK FALSE
