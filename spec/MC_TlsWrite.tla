---------------------------- MODULE MC_TlsWrite -----------------------------
(***************************************************************************)
(* The write side of the TLS connection (tls.rs SwitchableConn::write /     *)
(* flush over rustls::StreamOwned).  The TLS session queues outgoing       *)
(* records in a buffer of bounded size (rustls: 64 KiB); Writer::write     *)
(* accepts only what still fits and returns 0 when nothing does, which     *)
(* write_all turns into an error (WriteZero).  StreamOwned::write therefore *)
(* pushes the queue to the transport after every call (complete_io), so    *)
(* that a reply of any size goes through.                                  *)
(*                                                                         *)
(* Property (C18, "commands are served exactly as over plaintext"): for    *)
(* every sequence of packet writes between two flushes, no write_all fails *)
(* and after the flush the wire carries exactly the plaintext written, in  *)
(* order.  Deviation QueueOnly: write only queues (writer().write) and the *)
(* queue is pushed at flush time - replies larger than the limit fail.     *)
(* The transport may accept any non-empty part of what it is offered.      *)
(***************************************************************************)
EXTENDS Integers, Sequences, TLC

CONSTANTS Limit,        \* capacity of the TLS send queue (bytes)
          MaxTotal,     \* bound on the plaintext bytes of one reply
          MaxPkt,       \* bound on the size of one packet (one write_all)
          QueueOnly     \* deviation

VARIABLES written,      \* plaintext bytes handed to write_all so far (numbered 1..)
          rem,          \* bytes of the current write_all still to be accepted
          queued,       \* sequence of bytes in the TLS send queue
          wire,         \* sequence of bytes the transport has taken
          pc, result
vars == <<written, rem, queued, wire, pc, result>>

Init == written = 0 /\ rem = 0 /\ queued = << >> /\ wire = << >> /\ pc = "idle" /\ result = "running"

\* PacketConn::end_packet -> write_all(packet)
BeginPacket == /\ pc = "idle" /\ result = "running"
               /\ \E n \in 1..MaxPkt : written + n <= MaxTotal /\ rem' = n
               /\ pc' = "write" /\ UNCHANGED <<written, queued, wire, result>>
\* one write() call of the write_all loop
Write == /\ pc = "write" /\ rem > 0
         /\ LET acc == IF Limit - Len(queued) < rem THEN Limit - Len(queued) ELSE rem IN
            IF acc = 0 THEN result' = "WriteZero" /\ pc' = "done" /\ UNCHANGED <<written, rem, queued, wire>>
            ELSE /\ queued' = queued \o [i \in 1..acc |-> written + i]
                 /\ written' = written + acc /\ rem' = rem - acc
                 /\ pc' = IF QueueOnly THEN (IF rem - acc = 0 THEN "idle" ELSE "write") ELSE "push"
                 /\ UNCHANGED <<wire, result>>
\* complete_io: write_tls until the queue is empty; the transport takes any non-empty part per call
Push == /\ pc \in {"push", "flush"} /\ queued # << >>
        /\ \E k \in 1..Len(queued) : wire' = wire \o SubSeq(queued, 1, k) /\ queued' = SubSeq(queued, k + 1, Len(queued))
        /\ UNCHANGED <<written, rem, pc, result>>
PushDone == /\ pc = "push" /\ queued = << >>
            /\ pc' = (IF rem = 0 THEN "idle" ELSE "write") /\ UNCHANGED <<written, rem, queued, wire, result>>
\* the per-command flush
BeginFlush == /\ pc = "idle" /\ result = "running" /\ pc' = "flush" /\ UNCHANGED <<written, rem, queued, wire, result>>
FlushDone == /\ pc = "flush" /\ queued = << >> /\ pc' = "done" /\ result' = "ok" /\ UNCHANGED <<written, rem, queued, wire>>
Finished == pc = "done" /\ UNCHANGED vars

Next == BeginPacket \/ Write \/ Push \/ PushDone \/ BeginFlush \/ FlushDone \/ Finished
Spec == Init /\ [][Next]_vars

P_C18w == /\ result # "WriteZero"                                              \* no reply size makes a write fail
          /\ (result = "ok" => wire = [i \in 1..written |-> i])                \* everything written arrived, in order
          /\ wire \o queued = [i \in 1..written |-> i]                         \* nothing lost, duplicated or reordered on the way
=============================================================================
