---- MODULE MC_Utf8 ----
\* The non-recursive UTF-8 validity predicate used by the monitor (Bytes!IsUtf8) agrees with the
\* byte-at-a-time DFA of Unicode table 3-7 on every string up to length 4 over a boundary alphabet (C02: text that is
\* not valid UTF-8 never reaches the shim).
EXTENDS Bytes, TLC
RECURSIVE Utf8From(_, _)
Utf8From(s, i) ==
  IF i > Len(s) THEN TRUE
  ELSE LET b == s[i]
           n == Len(s)
           Cont(j) == j <= n /\ s[j] >= 128 /\ s[j] <= 191
       IN IF b < 128 THEN Utf8From(s, i + 1)
          ELSE IF b >= 194 /\ b <= 223 THEN Cont(i + 1) /\ Utf8From(s, i + 2)
          ELSE IF b = 224 THEN i + 1 <= n /\ s[i + 1] >= 160 /\ s[i + 1] <= 191 /\ Cont(i + 2) /\ Utf8From(s, i + 3)
          ELSE IF (b >= 225 /\ b <= 236) \/ b = 238 \/ b = 239 THEN Cont(i + 1) /\ Cont(i + 2) /\ Utf8From(s, i + 3)
          ELSE IF b = 237 THEN i + 1 <= n /\ s[i + 1] >= 128 /\ s[i + 1] <= 159 /\ Cont(i + 2) /\ Utf8From(s, i + 3)
          ELSE IF b = 240 THEN i + 1 <= n /\ s[i + 1] >= 144 /\ s[i + 1] <= 191 /\ Cont(i + 2) /\ Cont(i + 3) /\ Utf8From(s, i + 4)
          ELSE IF b >= 241 /\ b <= 243 THEN Cont(i + 1) /\ Cont(i + 2) /\ Cont(i + 3) /\ Utf8From(s, i + 4)
          ELSE IF b = 244 THEN i + 1 <= n /\ s[i + 1] >= 128 /\ s[i + 1] <= 143 /\ Cont(i + 2) /\ Cont(i + 3) /\ Utf8From(s, i + 4)
          ELSE FALSE
A == {65, 128, 159, 160, 191, 193, 194, 224, 237, 239, 240, 244, 245}
VARIABLE s
Init == s \in UNION {[1..n -> A] : n \in 0..4}
Next == UNCHANGED s
Spec == Init /\ [][Next]_s
Same == IsUtf8(s) = Utf8From(s, 1)
====
