SPECIFICATION Spec
CONSTANTS
  PMAX = 3
  MaxLen = 4
INVARIANT P_Total
CHECK_DEADLOCK FALSE
