SPECIFICATION Spec
CONSTANTS
  MaxOps = 3
  MoreOnLast = FALSE
  EofForZeroCols = FALSE
  Recover = TRUE
  LeakHeader = FALSE
INVARIANTS P_C03 P_Shape Emit
CHECK_DEADLOCK FALSE
