SPECIFICATION Spec
CONSTANTS
  PMAX = 6
  MaxMsgs = 2
  MaxLen = 14
  HeaderCountsTowardsLimit = FALSE
  EmitsEmptyCloser = FALSE
INVARIANTS P_C04 P_C05
VIEW view
CHECK_DEADLOCK FALSE
