SPECIFICATION Spec
CONSTANTS
  PLen = 6
  MaxT = 6
  KeepRemaining = TRUE
  PrependNothing = FALSE
  PrependFromStart = FALSE
INVARIANT P_C18
CHECK_DEADLOCK FALSE
