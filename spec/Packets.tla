------------------------------ MODULE Packets ------------------------------
(***************************************************************************)
(* Denotational MySQL packet framing over flat byte strings: a logical     *)
(* message of n bytes is floor(n / PMAX) packets of exactly PMAX bytes     *)
(* followed by one packet of n mod PMAX bytes (possibly empty); sequence   *)
(* ids are consecutive modulo 256.  PMAX is 2^24-1 on the wire; the MC     *)
(* models instantiate the same definitions with a small PMAX.              *)
(***************************************************************************)
EXTENDS Bytes
CONSTANT PMAX

Hdr(n, seq) == <<n % 256, (n \div 256) % 256, (n \div 65536) % 256, seq>>

RECURSIVE Frame(_, _)
\* the byte stream a conformant sender emits for message p starting at sequence id seq
Frame(p, seq) == IF Len(p) >= PMAX
                 THEN Hdr(PMAX, seq) \o SubSeq(p, 1, PMAX) \o Frame(SubSeq(p, PMAX + 1, Len(p)), (seq + 1) % 256)
                 ELSE Hdr(Len(p), seq) \o p
\* number of packets and last sequence id of that framing
NPackets(n) == (n \div PMAX) + 1
LastSeq(n, seq) == (seq + (n \div PMAX)) % 256

\* a complete packet (header + payload) starts at position i of s
HasPkt(s, i) == i + 3 <= Len(s) /\ i + 3 + Le24(s, i) <= Len(s)

RECURSIVE SplitFrom(_, _, _)
\* all complete packets from position i on: [pk |-> <<[at, seq, p]...>>, next |-> first unconsumed position]
SplitFrom(s, i, acc) ==
  IF HasPkt(s, i)
  THEN SplitFrom(s, i + 4 + Le24(s, i), Append(acc, [at |-> i, seq |-> s[i + 3], p |-> Sub(s, i + 4, Le24(s, i))]))
  ELSE [pk |-> acc, next |-> i]
Split(s) == SplitFrom(s, 1, << >>)

RECURSIVE JoinFrom(_, _, _, _)
\* group packets into logical messages.  cur = << >> or the open message record.
\* message = [p, seq0, seqN, n, consec, at]  (consec: fragment ids consecutive mod 256)
JoinFrom(pk, i, cur, msgs) ==
  IF i > Len(pk) THEN [msgs |-> msgs, used |-> i - 1 - (IF cur = << >> THEN 0 ELSE cur[1].n)]
  ELSE LET k == pk[i]
           m == IF cur = << >>
                THEN [p |-> k.p, seq0 |-> k.seq, seqN |-> k.seq, n |-> 1, consec |-> TRUE, at |-> k.at]
                ELSE [cur[1] EXCEPT !.p = @ \o k.p, !.seqN = k.seq, !.n = @ + 1,
                                    !.consec = @ /\ k.seq = (cur[1].seqN + 1) % 256]
       IN IF Len(k.p) = PMAX THEN JoinFrom(pk, i + 1, <<m>>, msgs)
          ELSE JoinFrom(pk, i + 1, << >>, Append(msgs, m))
Join(pk) == JoinFrom(pk, 1, << >>, << >>)

\* complete logical messages contained in byte stream s, and the unconsumed tail
Messages(s) ==
  LET sp == Split(s)
      j == Join(sp.pk)
      nxt == IF j.used < Len(sp.pk) THEN sp.pk[j.used + 1].at ELSE sp.next
  IN [msgs |-> j.msgs, rest |-> From(s, nxt), npk |-> j.used]

\* what a receiver reassembles from a whole, well-formed stream
Reassemble(s) == LET m == Messages(s) IN [i \in 1..Len(m.msgs) |-> m.msgs[i].p]
WellFramed(s) == Messages(s).rest = << >>
=============================================================================
