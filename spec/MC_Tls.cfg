SPECIFICATION Spec
CONSTANTS
  PLen = 6
  MaxT = 8
  KeepRemaining = FALSE
  PrependNothing = FALSE
  PrependFromStart = FALSE
INVARIANT P_C18
CHECK_DEADLOCK FALSE
