SPECIFICATION Spec
CONSTANTS
  MaxOps = 4
  MoreOnLast = FALSE
  EofForZeroCols = FALSE
  Recover = TRUE
  LeakHeader = TRUE
INVARIANTS P_C03 P_Shape
CHECK_DEADLOCK FALSE
