SPECIFICATION Spec
CONSTANTS
  Limit = 4
  MaxTotal = 12
  MaxPkt = 9
  QueueOnly = FALSE
INVARIANTS P_C18w
CHECK_DEADLOCK FALSE
