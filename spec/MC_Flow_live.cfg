SPECIFICATION Spec
CONSTANTS
  MaxCmds = 2
  WithFaults = FALSE
  MaxOp = 0
  FlushPerCommand = TRUE
  GateOnReject = TRUE
  SwallowFault = FALSE
INVARIANTS P_C12 P_C19
PROPERTY Terminates
