SPECIFICATION Spec
CONSTANTS
  MaxCmds = 2
  WithFaults = FALSE
  MaxOp = 0
  FlushPerCommand = FALSE
  GateOnReject = TRUE
  SwallowFault = FALSE
INVARIANTS P_C12 P_C11 P_C02 P_C19
VIEW view
