#!/usr/bin/env python3
"""Regenerates /verif/MANIFEST.json from the table below (kept here so that the manifest stays
valid and in step with what ./check actually implements)."""
import json, os, sys

VERIF = os.path.dirname(os.path.dirname(os.path.abspath(__file__)))

# property -> (category, technique, level text, note, design ref)
P = {
 'C01': ('model_checking', 'TLA+ reader model (MC_Reader, all chunkings, TLC) + TLC trace validation of real runs (Trace.tla / TraceBig.tla, RLE streams at real 2^24-1 sizes)',
         'The operational reader (bytes/start/remaining, parse-before-read, fold of full fragments) is model-checked against the denotational Packets!Reassemble for every chunking of short streams; every transition class is replayed on the real code, and recorded runs (1-byte reads, header cuts, 16-50 MiB commands) are validated by TLC which compares callback arguments with its own reassembly of the bytes the transport delivered.',
         'bounded model (PMAX=3) + sampled real-size runs; harness transport and spec decoder trusted', '6/C01'),
 'C02': ('model_checking', 'TLA+ routing relation (Commands!Classify) checked by TLC on every recorded callback (Trace.tla); MC_Route enumerates command pairs',
         'Every shim callback recorded from the real server is compared by TLC with the callback the specification derives from the bytes the client sent (exact order, name, argument); missing, extra and altered callbacks are all violations.',
         'USE spellings outside the stated set are not judged; harness trusted', '6/C02'),
 'C03': ('model_checking', 'TLA+ writer model (MC_Writer: all programs up to a bound vs Denote) + TLC trace validation of real runs with ClientDecoder/WriterSem',
         'All writer programs up to a bound are model-checked (operational last_end/finalize model decodes to the denotation); the same programs and long random ones are executed on the real server and TLC decodes every exchange exactly (one response per command, MORE flags, no stray or missing packets, sentinel pings).',
         'programs that never start a resultset and drop the writer are outside the property; decoder is mine', '6/C03'),
 'C04': ('model_checking', 'TLA+ framer model (MC_Framer, TLC) + TLC validation of real runs with 16-50 MiB messages over run-length-encoded streams (TraceBig.tla, PMAX=2^24-1)',
         'The framer design is model-checked for all message lengths around multiples of a small PMAX and all write compositions (and the pinned header-counting deviation is shown to fail); real runs with messages of k*(2^24-1)+d bytes are split and reassembled by TLC with the real PMAX.',
         'RLE representation of streams; sampled sizes', '6/C04'),
 'C05': ('model_checking', 'TLC trace validation: sequence-id arithmetic mod 256 on every decoded exchange (Trace.tla); MC_Framer covers the counter; Apalache-checked inductive invariant of apalache/SeqAbs.tla (unbounded exchanges and packets per exchange, 3 deviations must break it)',
         'Every packet of every exchange of every recorded run must carry request-last-id + 1 + j (mod 256); generators sweep all 256 request ids and responses of up to 700 packets.',
         'sampled response lengths', '6/C05'),
 'C06': ('model_checking', 'TLC trace validation with Codec.tla text decoders (limb-arithmetic decimal parser, date/time grammars); floats cross-checked by exact rational arithmetic',
         'TLC decodes every text cell of every recorded row and compares with the abstract value the shim was told to write; Decode(Encode(v))=v ASSUMEs check the oracle itself.',
         'float text round-trip decided outside TLA+ (fractions); values sampled at boundaries + random', '6/C06, 8'),
 'C07': ('model_checking', 'TLC trace validation with Codec.tla binary-row decoder driven by the decoded column definitions; MC_Bitmap enumerates NULL patterns',
         'TLC decodes every binary row (header, NULL bitmap at offset 2, values by advertised type and signedness) and compares cell by cell; refusals demanded by the protocol-level compatibility relation.',
         'compatibility classes taken from the protocol; sampled values', '6/C07'),
 'C08': ('model_checking', 'TLC trace validation: Commands!ExecDecode of the wire bytes vs the ParamValues and Into<T> conversions logged by the shim',
         'TLC decodes each COM_STMT_EXECUTE block from the bytes the client sent and compares type code, raw value and documented conversion of every delivered parameter.',
         'sampled values/types; conversions only where the Rust type can represent the value', '6/C08'),
 'C09': ('model_checking', 'TLC trace validation with ClientDecoder column-definition / prepare-OK decoders',
         'Decoded (table, name, type, flags) lists and prepare-OK fields must equal the declared ones for every recorded response.',
         'sampled names/sizes', '6/C09'),
 'C10': ('model_checking', 'TLA+ registry model (MC_Stmts, TLC, all histories up to a bound) + TLC trace validation against the registry reference model in Trace.tla',
         'All histories of prepare/execute/long-data/close up to a bound are model-checked against the reference registry; TLC-generated and random histories are run on the real code and validated.',
         'bounded histories; ids from a small set', '6/C10'),
 'C11': ('model_checking', 'TLC trace validation of greeting/handshake/auth gate (Trace.tla: DecGreeting, DecHandshakeResponse); MC_Phase',
         'Greeting fields, the single after_authentication call with the exact user before any command, OK/ERR 1045 at the next sequence id, and the returned shim error are checked on every run.',
         'sampled capability masks/user names', '6/C11'),
 'C12': ('model_checking', 'TLA+ flow model (MC_Flow incl. deadlock/liveness) + TLC trace validation: at every read all received commands are answered and flushed',
         'Invariant on every recorded read event (nothing unflushed, nothing owed, no complete command left buffered) plus the lock-step client that blocks when a reply is missing.',
         'harness transport defines "flushed"', '6/C12'),
 'C13': ('model_checking', 'TLC trace validation of ERR packets against the pinned error table + TLC ASSUME-level table consistency',
         'Every error reported at every site is decoded by TLC and compared (code, SQLSTATE, message) with the pinned reference; ErrorKind<->u16 round trip for all kinds.',
         'pinned reference table is the trusted statement of codes/states', '6/C13'),
 'C14': ('model_checking', 'TLC trace validation of OK packets (U64 as 8-byte tuples) against the logged completion counts',
         'affected rows / last insert id decoded from length-encoded integers on limbs and compared exactly; zero-column row counting via Denote.',
         'sampled pairs around class boundaries', '6/C14'),
 'C15': ('model_checking', 'TLA+ acceptance relation (Codec!MustAccept, ranges on limbs) evaluated by TLC on direct encoder runs; exhaustive for 8/16-bit types in thorough',
         'For each (Rust type, column, value): must-accept decided from ranges; if accepted the bytes decoded at the column width/signedness must equal the value.',
         'wide types sampled at boundaries', '6/C15'),
 'C16': ('model_checking', 'MC_Stmts (TLC) + TLC trace validation with per-statement bound types in the registry reference model',
         'Each logged parameter is compared with the decode under the types last bound for that statement.',
         'bounded histories', '6/C16'),
 'C17': ('model_checking', 'MC_Stmts (TLC) + TLC trace validation with pending long data in the registry reference model',
         'Concatenation order, single delivery, isolation across statements/parameters checked on every execution.',
         'bounded histories', '6/C17'),
 'C18': ('model_checking', 'TLA+ TLS byte-accounting model (MC_Tls, TLC) + TLC trace validation of runs with a real rustls client inside the transport',
         'All chunkings of SSL request + TLS bytes in the model; real runs cut at every offset around the SSL request/ClientHello boundary: raw bytes after the switch must be TLS records, decrypted stream validated like plaintext.',
         'rustls/ring trusted for cryptography', '6/C18'),
 'C19': ('fault_enumeration', 'fault enumeration over every transport operation of scripted conversations, each run validated by TLC (Trace.tla outcome predicates); MC_Faults',
         'For each conversation and each operation index: EOF after k bytes, one-off error, persistent error; TLC checks result class, no callback after the fault, shim errors returned unchanged.',
         'conversations sampled', '6/C19'),
 'C20': ('model_checking', 'exhaustive short byte strings + grammar mutations run on the real code, outcome judged by TLC (total Classify/decoders in Trace.tla); MC_Robust',
         'No panic / no livelock for all short strings over a reduced alphabet and mutated conversations.',
         'alphabet and length bounds', '6/C20'),
}


def main():
    claimed = sys.argv[1:] or sorted(P)
    checks = []
    for pid in sorted(P):
        if pid not in claimed:
            continue
        cat, tech, text, note, ref = P[pid]
        checks.append({
            'property_id': pid,
            'quick_cmd': './check %s --tier quick' % pid,
            'thorough_cmd': './check %s --tier thorough' % pid,
            'evidence_file': 'evidence/%s.json' % pid,
            'replay_cmd_template': './check %s --replay {path}' % pid,
            'engine': 'tla-trace',
            'level_claimed': {'category': cat, 'text': text, 'design_ref': 'DESIGN.md section ' + ref},
            'level_note': note,
            'technique': tech,
        })
    na = [{'property_id': pid, 'reason': 'check not built yet in this round (planned, see DESIGN.md section 6)'}
          for pid in sorted(P) if pid not in claimed]
    man = {
        'version': 1,
        'setup_cmd': 'cd harness && cargo build --profile verif --offline && cd .. && python3 tools/sany_all.py',
        'hooks': {'guard': 'msql_srv_verif', 'enable': 'RUSTFLAGS/--cfg msql_srv_verif via harness/.cargo/config.toml (no hooks are needed: all properties are observed at the transport and shim boundaries)',
                  'baseline_off_cmd': 'cd /repo && cargo test --workspace --no-fail-fast --offline', 'source_commits': [], 'add_only': True},
        'engines': [{'name': 'tla-trace', 'path': 'check', 'serves_properties': claimed,
                     'kind_free_text': 'explicit TLA+ specification (spec/*.tla) checked by TLC: bounded MC models + trace validation of runs of the real server recorded by harness/ (Rust)'}],
        'checks': checks,
        'notes': 'Verdicts are produced by TLC from spec/Trace.tla (VERDICT lines per run); the Python orchestrator only schedules, matches known findings and writes evidence.',
        'not_applicable': na,
    }
    with open(os.path.join(VERIF, 'MANIFEST.json'), 'w') as f:
        json.dump(man, f, indent=1)


if __name__ == '__main__':
    main()
