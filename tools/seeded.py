#!/usr/bin/env python3
"""Development tooling for seeded defects produced by independent sub-agents.

  seeded.py confirm <PID> <outdir> <worktree>   confirm each mutation (suite passes with it, demo fails with / passes without)
                                                 and store it under /verif/seeded/<PID>-<n>/
  seeded.py detect  <seeded-id> [props...]      apply the stored patch to /repo, run ./check for the given properties
                                                 (default: the property it breaks), undo, record what was detected
  seeded.py detect-all                          the same for every stored mutation
"""
import json, os, shutil, subprocess, sys, time

VERIF = os.path.dirname(os.path.dirname(os.path.abspath(__file__)))
SEEDED = os.path.join(VERIF, 'seeded')


def sh(cmd, cwd=None, timeout=3600):
    r = subprocess.run(cmd, shell=True, cwd=cwd, stdout=subprocess.PIPE, stderr=subprocess.STDOUT, text=True, timeout=timeout)
    return r.returncode, r.stdout


def confirm(pid, outdir, wt, tag=''):
    for n in sorted(os.listdir(outdir)):
        d = os.path.join(outdir, n)
        patch = os.path.join(d, 'patch.diff')
        demo = os.path.join(d, 'demo.rs')
        if not (os.path.isdir(d) and os.path.exists(patch) and os.path.exists(demo)):
            continue
        mpid = pid
        if pid == 'meta':          # free-choice authors name the property in their meta.json
            try:
                mpid = json.load(open(os.path.join(d, 'meta.json')))['property'].strip()[:3]
            except Exception:
                print(n, 'no property in meta.json')
                continue
        sid = '%s-%s%s' % (mpid, tag, n)
        log = []
        sh('git checkout -- . && git clean -fdq tests', cwd=wt)
        rc, out = sh('git apply %s' % patch, cwd=wt)
        if rc != 0:
            print(sid, 'patch does not apply:', out[-300:])
            continue
        rc, out = sh('cargo test --offline 2>&1 | grep -E "^test result|FAILED|panicked|error\\[" | head -20', cwd=wt)
        suite_ok = 'FAILED' not in out and 'error[' not in out and out.count('test result: ok') >= 4
        log.append('with patch: cargo test --offline -> %s' % ('all passed' if suite_ok else 'FAILED: ' + out[-300:]))
        shutil.copy(demo, os.path.join(wt, 'tests', 'demo_seed.rs'))
        rc1, out1 = sh('cargo test --offline --test demo_seed 2>&1 | tail -15', cwd=wt)
        demo_fails = 'test result: FAILED' in out1 or 'panicked' in out1
        log.append('with patch: demo -> %s' % ('fails (as intended)' if demo_fails else 'does NOT fail'))
        sh('git checkout -- src', cwd=wt)
        rc2, out2 = sh('cargo test --offline --test demo_seed 2>&1 | tail -8', cwd=wt)
        demo_passes = 'test result: ok' in out2 and 'FAILED' not in out2
        log.append('without patch: demo -> %s' % ('passes' if demo_passes else 'does NOT pass: ' + out2[-300:]))
        os.remove(os.path.join(wt, 'tests', 'demo_seed.rs'))
        sh('git checkout -- . && git clean -fdq tests', cwd=wt)
        ok = suite_ok and demo_fails and demo_passes
        print(sid, 'CONFIRMED' if ok else 'REJECTED', '|', ' ; '.join(log))
        if ok:
            dst = os.path.join(SEEDED, sid)
            os.makedirs(dst, exist_ok=True)
            shutil.copy(patch, os.path.join(dst, 'patch.diff'))
            shutil.copy(demo, os.path.join(dst, 'demo.rs'))
            meta = {}
            try:
                meta = json.load(open(os.path.join(d, 'meta.json')))
            except Exception:
                pass
            meta.update({'property': mpid, 'confirmed': log, 'origin': 'independent sub-agent given only the property text and a scratch worktree'})
            json.dump(meta, open(os.path.join(dst, 'meta.json'), 'w'), indent=1)


def detect(sid, props=None):
    dst = os.path.join(SEEDED, sid)
    meta = json.load(open(os.path.join(dst, 'meta.json')))
    props = props or [meta['property']]
    rc, out = sh('git status --short', cwd='/repo')
    if out.strip():
        print('refusing: /repo has uncommitted changes')
        sys.exit(2)
    rc, out = sh('git apply %s' % os.path.join(dst, 'patch.diff'), cwd='/repo')
    if rc != 0:
        print(sid, 'patch does not apply to /repo:', out[-300:])
        return
    res = meta.setdefault('detection', {})
    try:
        for p in props:
            t0 = time.time()
            rc, out = sh('./check %s --tier quick' % p, cwd=VERIF)
            viol = [l for l in out.split('\n') if l.startswith('VIOLATION') or l.startswith('   C')]
            res[p] = {'exit': rc, 'detected': rc == 1, 'lines': viol[:6], 'wall_s': round(time.time() - t0, 1)}
            print(sid, p, 'exit', rc, '|', ' / '.join(viol[:4])[:300])
    finally:
        sh('git checkout -- .', cwd='/repo')
    json.dump(meta, open(os.path.join(dst, 'meta.json'), 'w'), indent=1)


def store_negative(outdir, wt, tag):
    """store behaviour-preserving changes (negative controls) after confirming that the suite passes with them"""
    for n in sorted(os.listdir(outdir)):
        d = os.path.join(outdir, n)
        patch = os.path.join(d, 'patch.diff')
        if not os.path.exists(patch):
            continue
        sid = 'neg-%s%s' % (tag, n)
        sh('git checkout -- . && git clean -fdq tests', cwd=wt)
        rc, out = sh('git apply %s' % patch, cwd=wt)
        if rc != 0:
            print(sid, 'patch does not apply')
            continue
        rc, out = sh('cargo test --offline 2>&1 | grep -E "^test result|FAILED|error\\[" | head -20', cwd=wt)
        ok = 'FAILED' not in out and 'error[' not in out and out.count('test result: ok') >= 4
        sh('git checkout -- .', cwd=wt)
        print(sid, 'suite passes' if ok else 'SUITE FAILS: ' + out[-200:])
        if ok:
            dst = os.path.join(SEEDED, sid)
            os.makedirs(dst, exist_ok=True)
            shutil.copy(patch, os.path.join(dst, 'patch.diff'))
            meta = {}
            try:
                meta = json.load(open(os.path.join(d, 'meta.json')))
            except Exception:
                pass
            meta.update({'negative_control': True, 'origin': 'independent sub-agent asked for property-preserving changes'})
            json.dump(meta, open(os.path.join(dst, 'meta.json'), 'w'), indent=1)


def negative(sid):
    """a behaviour-preserving change must not raise any alarm: run all 20 quick checks"""
    dst = os.path.join(SEEDED, sid)
    meta = json.load(open(os.path.join(dst, 'meta.json')))
    rc, out = sh('git status --short', cwd='/repo')
    if out.strip():
        print('refusing: /repo has uncommitted changes')
        sys.exit(2)
    rc, out = sh('git apply %s' % os.path.join(dst, 'patch.diff'), cwd='/repo')
    if rc != 0:
        print(sid, 'patch does not apply to /repo:', out[-300:])
        return
    res = meta.setdefault('alarms', {})
    try:
        for i in range(1, 21):
            p = 'C%02d' % i
            rc, out = sh('./check %s --tier quick' % p, cwd=VERIF)
            viol = [l for l in out.split('\n') if l.startswith('VIOLATION') or l.startswith('   C') or l.startswith('TOOL-ERROR')]
            res[p] = {'exit': rc, 'lines': viol[:4]}
            print(sid, p, 'exit', rc, '|', ' / '.join(viol[:3])[:260], flush=True)
    finally:
        sh('git checkout -- .', cwd='/repo')
    json.dump(meta, open(os.path.join(dst, 'meta.json'), 'w'), indent=1)


def table():
    """markdown table of all stored seeded defects and which check detects them"""
    rows = []
    for sid in sorted(os.listdir(SEEDED)):
        mp = os.path.join(SEEDED, sid, 'meta.json')
        if not os.path.exists(mp) or sid.startswith('neg-'):
            continue
        m = json.load(open(mp))
        det = m.get('detection', {})
        cells = []
        for p, r in sorted(det.items()):
            why = ''
            for ln in r.get('lines', []):
                if ln.strip().startswith(p + '|') or ln.strip().startswith('C'):
                    why = ln.strip().split('(run')[0].strip()
                    break
            cells.append('%s: %s' % (p, ('**detected** - ' + why[:110]) if r.get('detected') else 'missed (exit %s)' % r.get('exit')))
        summ = (m.get('summary') or '').replace('|', '/').replace('\n', ' ')
        rows.append('| %s | %s | %s |' % (sid, summ[:150] + ('...' if len(summ) > 150 else ''), '; '.join(cells) or 'not run'))
    print('| seeded defect | change (as described by its author) | quick check of the property it breaks |')
    print('|---|---|---|')
    print('\n'.join(rows))


if __name__ == '__main__':
    if sys.argv[1] == 'store-negative':
        store_negative(sys.argv[2], sys.argv[3], sys.argv[4] if len(sys.argv) > 4 else '')
        sys.exit(0)
    if sys.argv[1] == 'negative':
        negative(sys.argv[2])
        sys.exit(0)
    if sys.argv[1] == 'table':
        table()
        sys.exit(0)
    if sys.argv[1] == 'confirm':
        confirm(sys.argv[2], sys.argv[3], sys.argv[4], sys.argv[5] if len(sys.argv) > 5 else '')
    elif sys.argv[1] == 'detect':
        detect(sys.argv[2], sys.argv[3:] or None)
    elif sys.argv[1] == 'detect-all':
        for sid in sorted(os.listdir(SEEDED)):
            if os.path.exists(os.path.join(SEEDED, sid, 'meta.json')) and not sid.startswith('neg-'):
                detect(sid)
