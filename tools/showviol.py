#!/usr/bin/env python3
"""Debug aid: re-run a violation's scenario alone and print the trace events its verdict points at."""
import json, os, subprocess, sys, tempfile
sys.path.insert(0, os.path.dirname(os.path.dirname(os.path.abspath(__file__))))
from vt import run as R, props as P
rp = json.load(open(sys.argv[1]))
work = os.path.join(R.VERIF, 'work', 'show-%d' % os.getpid())
byrun, states, nevents, tp = P.execute([rp['scenario']], work, 1)
lines = open(tp).read().split('\n')
for rid, v in byrun.items():
    seen = set()
    for x in v['viol']:
        key = (x['p'], x['why'])
        if key in seen:
            continue
        seen.add(key)
        print('%s at %d: %s' % (x['p'], x['at'], x['why']))
        if 0 < x['at'] <= len(lines):
            print('   ', lines[x['at'] - 1][:600])
import shutil; shutil.rmtree(work, ignore_errors=True)
