#!/usr/bin/env python3
"""setup step: parse every specification module with SANY (fails fast on a broken spec)."""
import glob, os, shutil, subprocess, sys, tempfile
spec = os.path.join(os.path.dirname(os.path.dirname(os.path.abspath(__file__))), 'spec')
bad = 0
os.makedirs(os.path.join(os.path.dirname(spec), 'work'), exist_ok=True)
tmpd = tempfile.mkdtemp(prefix='sany-', dir=os.path.join(os.path.dirname(spec), 'work'))
for f in sorted(glob.glob(os.path.join(spec, '*.tla')) + glob.glob(os.path.join(spec, 'apalache', '*.tla'))):
    r = subprocess.run(['java', '-Djava.io.tmpdir=' + tmpd, '-cp', '/opt/veriftools/tla/tla2tools.jar:/opt/veriftools/tla/CommunityModules-deps.jar',
                        'tla2sany.SANY', f], cwd=spec, stdout=subprocess.PIPE, stderr=subprocess.STDOUT, text=True)
    if r.returncode != 0 or 'Semantic errors' in r.stdout or 'Parse Error' in r.stdout or 'Fatal errors' in r.stdout or '*** Errors' in r.stdout:
        print('SANY failed on', f)
        print(r.stdout[-2000:])
        bad += 1
shutil.rmtree(tmpd, ignore_errors=True)
print('sany: %d modules, %d bad' % (len(glob.glob(os.path.join(spec, '*.tla')) + glob.glob(os.path.join(spec, 'apalache', '*.tla'))), bad))
sys.exit(1 if bad else 0)
