#!/usr/bin/env python3
"""Debug aid: run a scenario file (jsonl) through the harness and the TLC monitor; print verdicts."""
import json, os, sys, shutil
sys.path.insert(0, os.path.dirname(os.path.dirname(os.path.abspath(__file__))))
from vt import run as R, props as P
scs = [json.loads(l) for l in open(sys.argv[1]) if l.strip()]
work = os.path.join(R.VERIF, 'work', 'runscen-%d' % os.getpid())
try:
    byrun, states, nevents = P.execute_all(scs, work, 8)
    for rid, v in byrun.items():
        print(rid, json.dumps(v['viol']), json.dumps(v['stats']), json.dumps(v['flags']))
finally:
    if '--keep' not in sys.argv:
        shutil.rmtree(work, ignore_errors=True)
