#!/usr/bin/env python3
"""Extract the three error tables of /repo/src/errorcodes.rs (enum discriminants, From<u16> arms,
sqlstate() arms) as JSON.  Used to (re)create the pinned reference and, on every C13 run, to hand
the current tables to TLC (spec/ErrTables.tla) for the consistency check."""
import json, re, sys

def extract(path):
    src = open(path).read()
    # strip the generator program in the leading block comment
    src = src[src.index('*/') + 2:]
    body = src[src.index('pub enum ErrorKind'):]
    enum_txt = body[:body.index('\n}\n')]
    enum = {}
    for m in re.finditer(r'^\s*([A-Z][A-Z0-9_a-z]*)\s*=\s*(\d+)\s*,', enum_txt, re.M):
        enum[m.group(1)] = int(m.group(2))
    from_txt = body[body.index('impl From<u16> for ErrorKind'):]
    from_txt = from_txt[:from_txt.index('_ => panic!')]
    frm = {}
    for m in re.finditer(r'(\d+)_u16\s*=>\s*\{?\s*ErrorKind::([A-Za-z0-9_]+)', from_txt):
        frm[int(m.group(1))] = m.group(2)
    st_txt = body[body.index('pub fn sqlstate'):]
    state = {}
    # arms:  ErrorKind::A | ErrorKind::B ... => b"XXXXX",
    for m in re.finditer(r'((?:\s*\|?\s*ErrorKind::[A-Za-z0-9_]+)+)\s*=>\s*b"(.{5})"', st_txt):
        for n in re.findall(r'ErrorKind::([A-Za-z0-9_]+)', m.group(1)):
            state[n] = m.group(2)
    return enum, frm, state

if __name__ == '__main__':
    enum, frm, state = extract(sys.argv[1] if len(sys.argv) > 1 else '/repo/src/errorcodes.rs')
    ref = {n: {"code": c, "state": [ord(ch) for ch in state.get(n, '?????')]} for n, c in enum.items()}
    json.dump(ref, sys.stdout, sort_keys=True)
