#!/usr/bin/env python3
"""Replaces the seeded-defect table in DESIGN.md (between the SEEDED-TABLE markers) with the current results."""
import os, subprocess, sys
V = os.path.dirname(os.path.dirname(os.path.abspath(__file__)))
tab = subprocess.run([sys.executable, os.path.join(V, 'tools', 'seeded.py'), 'table'], stdout=subprocess.PIPE, text=True).stdout
p = os.path.join(V, 'DESIGN.md')
s = open(p).read()
B, E = '<!-- SEEDED-TABLE-BEGIN -->', '<!-- SEEDED-TABLE-END -->'
if B in s:
    s = s[:s.index(B)] + B + '\n' + tab + E + s[s.index(E) + len(E):]
else:
    s = s.replace('SEEDED-TABLE', B + '\n' + tab + E)
open(p, 'w').write(s)
