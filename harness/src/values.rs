//! Construction of Rust values from abstract scenario descriptors, and the direct-encoder
//! scenario kinds (`encode`, `errtable`).

use crate::rec::{parse_bytes, Rec};
use chrono::{NaiveDate, NaiveDateTime};
use msql_srv::{Column, ColumnFlags, ColumnType, ToMysqlValue};
use serde_json::{json, Value as J};
use std::cell::RefCell;
use std::convert::TryFrom;
use std::io::{self, Write};
use std::panic::{self, AssertUnwindSafe};
use std::rc::Rc;
use std::time::Duration;

include!(concat!(env!("OUT_DIR"), "/errkinds.rs"));

#[derive(Debug, Clone)]
pub enum AnyVal {
    I8(i8),
    U8(u8),
    I16(i16),
    U16(u16),
    I32(i32),
    U32(u32),
    I64(i64),
    U64(u64),
    Isize(isize),
    Usize(usize),
    F32(f32),
    F64(f64),
    Bytes(Vec<u8>),
    Str(String),
    StringV(String),
    VecV(Vec<u8>),
    Date(NaiveDate),
    DateTime(NaiveDateTime),
    Dur(Duration),
    Myc(myc::value::Value),
    NoneOf(String),
    SomeOf(Box<AnyVal>),
    RefOf(Box<AnyVal>),
}

macro_rules! deleg {
    ($self:ident, $x:ident => $e:expr) => {
        match $self {
            AnyVal::I8($x) => $e,
            AnyVal::U8($x) => $e,
            AnyVal::I16($x) => $e,
            AnyVal::U16($x) => $e,
            AnyVal::I32($x) => $e,
            AnyVal::U32($x) => $e,
            AnyVal::I64($x) => $e,
            AnyVal::U64($x) => $e,
            AnyVal::Isize($x) => $e,
            AnyVal::Usize($x) => $e,
            AnyVal::F32($x) => $e,
            AnyVal::F64($x) => $e,
            AnyVal::Bytes(v) => {
                let $x: &[u8] = &v[..];
                $e
            }
            AnyVal::Str(v) => {
                let $x: &str = &v[..];
                $e
            }
            AnyVal::StringV($x) => $e,
            AnyVal::VecV($x) => $e,
            AnyVal::Date($x) => $e,
            AnyVal::DateTime($x) => $e,
            AnyVal::Dur($x) => $e,
            AnyVal::Myc($x) => $e,
            AnyVal::NoneOf(of) => match of.as_str() {
                "i64" => {
                    let $x = &None::<i64>;
                    $e
                }
                "str" => {
                    let $x = &None::<&str>;
                    $e
                }
                "f64" => {
                    let $x = &None::<f64>;
                    $e
                }
                "date" => {
                    let $x = &None::<NaiveDate>;
                    $e
                }
                _ => {
                    let $x = &None::<u8>;
                    $e
                }
            },
            AnyVal::SomeOf(inner) => {
                let $x = &Some(&**inner);
                $e
            }
            AnyVal::RefOf(inner) => {
                let $x = &&**inner;
                $e
            }
        }
    };
}

impl ToMysqlValue for AnyVal {
    fn to_mysql_text<W: Write>(&self, w: &mut W) -> io::Result<()> {
        deleg!(self, x => x.to_mysql_text(w))
    }
    fn to_mysql_bin<W: Write>(&self, w: &mut W, c: &Column) -> io::Result<()> {
        deleg!(self, x => x.to_mysql_bin(w, c))
    }
    fn is_null(&self) -> bool {
        deleg!(self, x => x.is_null())
    }
}

fn le8(v: &J) -> [u8; 8] {
    let b = parse_bytes(v);
    let mut a = [0u8; 8];
    a.copy_from_slice(&b[..8]);
    a
}

fn ivec(v: &J) -> Vec<i64> {
    v.as_array()
        .map(|a| a.iter().map(|x| x.as_i64().unwrap()).collect())
        .unwrap_or_default()
}

pub fn mkdate(v: &[i64]) -> NaiveDate {
    NaiveDate::from_ymd_opt(v[0] as i32, v[1] as u32, v[2] as u32).expect("scenario: valid date")
}

pub fn mkdatetime(v: &[i64]) -> NaiveDateTime {
    // optional 8th element: a sub-microsecond part in nanoseconds
    let ns = v.get(7).copied().unwrap_or(0) as u32;
    mkdate(v)
        .and_hms_nano_opt(v[3] as u32, v[4] as u32, v[5] as u32, (v[6] as u32) * 1000 + ns)
        .expect("scenario: valid time")
}

pub fn mkval(d: &J) -> AnyVal {
    let k = d["k"].as_str().expect("value kind");
    match k {
        "i8" => AnyVal::I8(i64::from_le_bytes(le8(&d["le"])) as i8),
        "u8" => AnyVal::U8(u64::from_le_bytes(le8(&d["le"])) as u8),
        "i16" => AnyVal::I16(i64::from_le_bytes(le8(&d["le"])) as i16),
        "u16" => AnyVal::U16(u64::from_le_bytes(le8(&d["le"])) as u16),
        "i32" => AnyVal::I32(i64::from_le_bytes(le8(&d["le"])) as i32),
        "u32" => AnyVal::U32(u64::from_le_bytes(le8(&d["le"])) as u32),
        "i64" => AnyVal::I64(i64::from_le_bytes(le8(&d["le"]))),
        "u64" => AnyVal::U64(u64::from_le_bytes(le8(&d["le"]))),
        "isize" => AnyVal::Isize(i64::from_le_bytes(le8(&d["le"])) as isize),
        "usize" => AnyVal::Usize(u64::from_le_bytes(le8(&d["le"])) as usize),
        "f32" => {
            let b = parse_bytes(&d["le"]);
            AnyVal::F32(f32::from_le_bytes([b[0], b[1], b[2], b[3]]))
        }
        "f64" => AnyVal::F64(f64::from_le_bytes(le8(&d["le"]))),
        "bytes" => AnyVal::Bytes(parse_bytes(&d["b"])),
        "vec" => AnyVal::VecV(parse_bytes(&d["b"])),
        "str" => AnyVal::Str(String::from_utf8(parse_bytes(&d["b"])).expect("scenario: utf8")),
        "string" => {
            AnyVal::StringV(String::from_utf8(parse_bytes(&d["b"])).expect("scenario: utf8"))
        }
        "date" => AnyVal::Date(mkdate(&ivec(&d["v"]))),
        "datetime" => AnyVal::DateTime(mkdatetime(&ivec(&d["v"]))),
        "dur" => {
            let v = ivec(&d["v"]);
            // optional third element: a sub-microsecond part in nanoseconds
            let ns = v.get(2).copied().unwrap_or(0) as u32;
            AnyVal::Dur(Duration::new(v[0] as u64, (v[1] as u32) * 1000 + ns))
        }
        "none" => AnyVal::NoneOf(d["of"].as_str().unwrap_or("u8").to_string()),
        "some" => AnyVal::SomeOf(Box::new(mkval(&d["v"]))),
        "ref" => AnyVal::RefOf(Box::new(mkval(&d["v"]))),
        "myc" => {
            use myc::value::Value as V;
            let t = d["t"].as_str().expect("myc variant");
            AnyVal::Myc(match t {
                "NULL" => V::NULL,
                "Bytes" => V::Bytes(parse_bytes(&d["b"])),
                "Int" => V::Int(i64::from_le_bytes(le8(&d["le"]))),
                "UInt" => V::UInt(u64::from_le_bytes(le8(&d["le"]))),
                "Float" => {
                    let b = parse_bytes(&d["le"]);
                    V::Float(f32::from_le_bytes([b[0], b[1], b[2], b[3]]))
                }
                "Double" => V::Double(f64::from_le_bytes(le8(&d["le"]))),
                "Date" => {
                    let v = ivec(&d["v"]);
                    V::Date(
                        v[0] as u16,
                        v[1] as u8,
                        v[2] as u8,
                        v[3] as u8,
                        v[4] as u8,
                        v[5] as u8,
                        v[6] as u32,
                    )
                }
                "Time" => {
                    let v = ivec(&d["v"]);
                    V::Time(
                        v[0] != 0,
                        v[1] as u32,
                        v[2] as u8,
                        v[3] as u8,
                        v[4] as u8,
                        v[5] as u32,
                    )
                }
                other => panic!("scenario: myc variant {}", other),
            })
        }
        other => panic!("scenario: value kind {}", other),
    }
}

pub fn mkcol(c: &J) -> Column {
    Column {
        table: String::from_utf8(parse_bytes(&c["t"])).expect("scenario: utf8 table"),
        column: String::from_utf8(parse_bytes(&c["n"])).expect("scenario: utf8 column"),
        coltype: ColumnType::try_from(c["ty"].as_u64().unwrap() as u8).expect("scenario: coltype"),
        colflags: ColumnFlags::from_bits_truncate(c["fl"].as_u64().unwrap_or(0) as u16),
    }
}

pub fn mkcols(v: &J) -> Vec<Column> {
    v.as_array()
        .map(|a| a.iter().map(mkcol).collect())
        .unwrap_or_default()
}

fn encode_one(rec: &Rc<RefCell<Rec>>, v: &J, col: &J, mode: &str, extra: Option<&J>) {
    let val = mkval(v);
    let c = mkcol(col);
    let mut out: Vec<u8> = Vec::new();
    let _ = crate::take_panic();
    let r = panic::catch_unwind(AssertUnwindSafe(|| {
        if mode == "text" {
            val.to_mysql_text(&mut out)
        } else {
            val.to_mysql_bin(&mut out, &c)
        }
    }));
    let mut ev = json!({"e": "enc", "v": v, "col": col, "mode": mode});
    if let Some(x) = extra {
        ev["x"] = x.clone();
    }
    match r {
        Ok(Ok(())) => {
            ev["res"] = json!("ok");
        }
        Ok(Err(_)) => {
            ev["res"] = json!("err");
        }
        Err(_) => {
            let (loc, _) = crate::take_panic().unwrap_or(("?".into(), "?".into()));
            ev["res"] = json!("panic");
            ev["site"] = json!(crate::panic_site(&loc));
        }
    }
    let b = rec.borrow().bytes(&out);
    ev["out"] = b;
    rec.borrow_mut().emit(ev);
}

pub fn run_encode(sc: &J, rec: &Rc<RefCell<Rec>>) {
    if let Some(cases) = sc["cases"].as_array() {
        for c in cases {
            encode_one(
                rec,
                &c["v"],
                &c["col"],
                c["mode"].as_str().unwrap_or("bin"),
                c.get("x"),
            );
        }
    }
    if let Some(en) = sc.get("enum") {
        // exhaustive enumeration of an 8- or 16-bit Rust integer type against a list of columns
        let k = en["k"].as_str().unwrap();
        let (lo, hi): (i64, i64) = match k {
            "i8" => (-128, 127),
            "u8" => (0, 255),
            "i16" => (-32768, 32767),
            "u16" => (0, 65535),
            _ => panic!("enum kind"),
        };
        let step = en["step"].as_i64().unwrap_or(1);
        let cols = en["cols"].as_array().unwrap();
        let mut x = lo;
        while x <= hi {
            let le: Vec<u8> = x.to_le_bytes().to_vec();
            let v = json!({"k": k, "le": le, "c": {"t": "int", "le": le, "s": k.starts_with('i')}});
            for c in cols {
                encode_one(rec, &v, c, "bin", None);
            }
            x += step;
        }
    }
    rec.borrow_mut().emit(json!({"e": "end", "result": "ok"}));
}

pub fn run_errtable(_sc: &J, rec: &Rc<RefCell<Rec>>) {
    for name in KIND_NAMES {
        let k = kind_by_name(name).unwrap();
        let code = k as u16;
        let _ = crate::take_panic();
        let back = panic::catch_unwind(|| format!("{:?}", msql_srv::ErrorKind::from(code)));
        let back = match back {
            Ok(s) => s,
            Err(_) => {
                let _ = crate::take_panic();
                "<panic>".to_string()
            }
        };
        let st: Vec<u8> = k.sqlstate().to_vec();
        rec.borrow_mut().emit(
            json!({"e": "ek", "name": name, "code": code, "back": back, "state": st}),
        );
    }
    rec.borrow_mut().emit(json!({"e": "end", "result": "ok"}));
}
