//! Event recorder (ndjson) and byte-string (de)serialisation.
//!
//! Scenario byte strings: JSON array whose items are either an integer (one literal byte) or a
//! pair `[byte, count]` (a run). Event byte strings: flat array of integers, or — when the
//! scenario asks for `"enc":"rle"` — an array of canonical runs `[byte, count]` (adjacent runs
//! differ, count >= 1), which is what lets TLC handle 16-50 MiB messages.

use serde_json::{json, Value as J};
use std::fs::File;
use std::io::{BufWriter, Write};

pub struct Rec {
    out: BufWriter<File>,
    pub rle: bool,
}

impl Rec {
    pub fn new(f: File) -> Self {
        Rec {
            out: BufWriter::with_capacity(1 << 20, f),
            rle: false,
        }
    }
    pub fn emit(&mut self, v: J) {
        serde_json::to_writer(&mut self.out, &v).unwrap();
        self.out.write_all(b"\n").unwrap();
    }
    pub fn flush(&mut self) {
        self.out.flush().unwrap();
    }
    pub fn bytes(&self, b: &[u8]) -> J {
        if self.rle {
            rle_json(b)
        } else {
            J::Array(b.iter().map(|x| json!(*x)).collect())
        }
    }
}

pub fn rle_json(b: &[u8]) -> J {
    let mut runs: Vec<J> = Vec::new();
    let mut i = 0;
    while i < b.len() {
        let x = b[i];
        let mut j = i + 1;
        while j < b.len() && b[j] == x {
            j += 1;
        }
        runs.push(json!([x, j - i]));
        i = j;
    }
    J::Array(runs)
}

/// Parse a scenario byte string.
pub fn parse_bytes(v: &J) -> Vec<u8> {
    let mut out = Vec::new();
    match v {
        J::Null => {}
        J::Array(a) => {
            for it in a {
                match it {
                    J::Number(n) => out.push(n.as_u64().expect("byte") as u8),
                    J::Array(p) => {
                        let b = p[0].as_u64().expect("run byte") as u8;
                        let n = p[1].as_u64().expect("run count") as usize;
                        out.resize(out.len() + n, b);
                    }
                    _ => panic!("bad byte string item"),
                }
            }
        }
        J::String(s) => out.extend_from_slice(s.as_bytes()),
        _ => panic!("bad byte string"),
    }
    out
}
