//! vharness: executes scenarios against the real msql-srv (`/repo`, current working tree) through an
//! in-memory scripted transport and a scenario-interpreting shim, and records everything that
//! crosses the two boundaries (transport operations, shim callbacks / writer-API calls) as an
//! ndjson event trace. The harness never judges: verdicts are produced by TLC from `spec/Trace*.tla`.
//!
//! usage: vharness run <scenarios.jsonl> <trace.ndjson> [--progress <file>]

extern crate mysql_common as myc;

mod rec;
mod shim;
mod transport;
mod values;

use serde_json::{json, Value as J};
use std::cell::RefCell;
use std::fs::File;
use std::io::{BufRead, BufReader, Write};
use std::panic::{self, AssertUnwindSafe};
use std::rc::Rc;

use rec::Rec;

thread_local! {
    pub static LAST_PANIC: RefCell<Option<(String, String)>> = RefCell::new(None);
}

pub fn take_panic() -> Option<(String, String)> {
    LAST_PANIC.with(|p| p.borrow_mut().take())
}

fn install_panic_hook() {
    panic::set_hook(Box::new(|info| {
        let loc = info
            .location()
            .map(|l| format!("{}:{}", l.file(), l.line()))
            .unwrap_or_else(|| "?".into());
        let msg = if let Some(s) = info.payload().downcast_ref::<&str>() {
            s.to_string()
        } else if let Some(s) = info.payload().downcast_ref::<String>() {
            s.clone()
        } else {
            "<non-string panic>".to_string()
        };
        LAST_PANIC.with(|p| {
            let mut p = p.borrow_mut();
            // keep the FIRST panic of a run (later ones are consequences)
            if p.is_none() {
                *p = Some((loc, msg));
            }
        });
    }));
}

/// site = "src/file.rs|<trimmed source text of that line>" (line numbers move, the expression does not)
pub fn panic_site(loc: &str) -> String {
    let mut parts = loc.rsplitn(2, ':');
    let line: usize = parts.next().and_then(|s| s.parse().ok()).unwrap_or(0);
    let file = parts.next().unwrap_or("?");
    let rel = file.strip_prefix("/repo/").unwrap_or(file);
    let mut text = String::new();
    if line > 0 {
        if let Ok(s) = std::fs::read_to_string(file) {
            if let Some(l) = s.lines().nth(line - 1) {
                text = l.trim().to_string();
            }
        }
    }
    // registry paths: keep only crate-relative tail
    let rel = if let Some(i) = rel.find("/registry/src/") {
        let tail = &rel[i + "/registry/src/".len()..];
        tail.splitn(2, '/').nth(1).unwrap_or(tail).to_string()
    } else {
        rel.to_string()
    };
    format!("{}|{}", rel, text)
}

fn run_conn(sc: &J, rec: &Rc<RefCell<Rec>>) {
    let _ = take_panic();
    let tstate = transport::TState::from_scenario(sc, rec.clone());
    let tstate = Rc::new(RefCell::new(tstate));
    let tr = transport::Transport {
        inner: tstate.clone(),
    };
    let shimkind = sc["shim"]["kind"].as_str().unwrap_or("program");
    let shared = Rc::new(RefCell::new(shim::Shared::new(sc, rec.clone())));

    let res = panic::catch_unwind(AssertUnwindSafe(|| {
        if shimkind == "default_init" {
            let s = shim::DefaultInitShim(shim::PShim {
                sh: shared.clone(),
            });
            msql_srv::MysqlIntermediary::run_on(s, tr)
        } else {
            let s = shim::PShim { sh: shared.clone() };
            msql_srv::MysqlIntermediary::run_on(s, tr)
        }
    }));
    let ts = tstate.borrow();
    let inner_panic = shared.borrow().panicked.clone();
    let mut end = json!({"e": "end", "site": "", "msg": "", "err": {"k": "none", "token": -1}});
    match res {
        Err(_) => {
            let (loc, msg) = take_panic().unwrap_or(("?".into(), "?".into()));
            if msg.starts_with("scenario:") {
                eprintln!("bad scenario {}: {}", sc["id"], msg);
                std::process::exit(2);
            }
            end["result"] = json!("panic");
            end["site"] = json!(panic_site(&loc));
            end["msg"] = json!(msg);
        }
        Ok(r) => {
            if let Some((site, msg)) = inner_panic {
                end["result"] = json!("panic");
                end["site"] = json!(site);
                end["msg"] = json!(msg);
            } else if ts.livelock {
                end["result"] = json!("livelock");
            } else {
                match r {
                    Ok(()) => {
                        end["result"] = json!("ok");
                    }
                    Err(shim::SErr::Io(e)) => {
                        end["result"] = json!("err");
                        end["err"] = json!({"k": "io", "kind": format!("{:?}", e.kind()), "msg": e.to_string(),
                                             "injected": e.to_string().starts_with("injected"), "token": -1});
                    }
                    Err(shim::SErr::Shim(t)) => {
                        end["result"] = json!("err");
                        end["err"] = json!({"k": "shim", "token": t});
                    }
                    Err(shim::SErr::Panic) => {
                        end["result"] = json!("panic");
                        end["site"] = json!("?");
                    }
                }
            }
        }
    }
    end["unflushed"] = json!(ts.pending.len());
    end["client_left"] = json!(ts.client_left());
    drop(ts);
    rec.borrow_mut().emit(end);
}

fn main() {
    let args: Vec<String> = std::env::args().collect();
    if args.len() < 4 || args[1] != "run" {
        eprintln!("usage: vharness run <scenarios.jsonl> <trace.ndjson> [--progress <file>]");
        std::process::exit(2);
    }
    let mut progress: Option<String> = None;
    let mut i = 4;
    while i < args.len() {
        if args[i] == "--progress" && i + 1 < args.len() {
            progress = Some(args[i + 1].clone());
            i += 2;
        } else {
            i += 1;
        }
    }
    install_panic_hook();
    let inp = BufReader::new(File::open(&args[2]).expect("open scenarios"));
    let out = File::create(&args[3]).expect("create trace");
    let rec = Rc::new(RefCell::new(Rec::new(out)));
    let mut n = 0usize;
    for line in inp.lines() {
        let line = line.expect("read line");
        if line.trim().is_empty() {
            continue;
        }
        let sc: J = serde_json::from_str(&line).expect("scenario json");
        n += 1;
        if let Some(p) = &progress {
            let mut f = File::create(p).unwrap();
            let _ = writeln!(f, "{} {}", n, sc["id"].as_str().unwrap_or("?"));
        }
        let kind = sc["kind"].as_str().unwrap_or("conn");
        {
            let mut r = rec.borrow_mut();
            r.rle = sc["enc"].as_str() == Some("rle");
            let mut b = json!({"e": "begin", "run": sc["id"], "kind": kind});
            if let Some(m) = sc.get("meta") {
                b["meta"] = m.clone();
            }
            if kind == "conn" {
                b["shim"] = json!(sc["shim"]["kind"].as_str().unwrap_or("program"));
                b["tls"] = json!(sc["shim"]["tls"].as_bool().unwrap_or(false));
                b["ctls"] = json!(sc["client"]["tls"].as_bool().unwrap_or(false));
                b["ccert"] = json!(
                    sc["client"]["cert"].as_bool().unwrap_or(false)
                        && sc["shim"]["client_cert"].as_bool().unwrap_or(false)
                );
                // fingerprints of the certificate chain the client presents (when the server asks for one)
                let chain: Vec<J> = if b["ccert"].as_bool().unwrap_or(false) {
                    shim::client_chain(&sc).iter().map(|d| shim::fingerprint(d)).collect()
                } else {
                    Vec::new()
                };
                b["cchain"] = json!(chain);
                b["auth"] = json!(sc["shim"]["auth"].as_str().unwrap_or("accept"));
                b["mode"] = json!(sc["client"]["mode"].as_str().unwrap_or("pipelined"));
            }
            r.emit(b);
            // the begin event must be on disk before the library runs (the process may abort)
            r.flush();
        }
        match kind {
            "conn" => run_conn(&sc, &rec),
            "encode" => values::run_encode(&sc, &rec),
            "errtable" => values::run_errtable(&sc, &rec),
            other => {
                eprintln!("unknown scenario kind {}", other);
                std::process::exit(2);
            }
        }
        rec.borrow_mut().flush();
    }
    rec.borrow_mut().flush();
}
