//! In-memory scripted transport with the scripted client living inside `read`.

use crate::rec::{parse_bytes, Rec};
use serde_json::{json, Value as J};
use std::cell::RefCell;
use std::io::{self, Read, Write};
use std::rc::Rc;
use std::sync::Arc;

pub struct Msg {
    pub bytes: Vec<u8>,
    pub reply: bool,
}

pub struct Fault {
    pub on: String, // read | write | flush | any
    pub at: u64,    // index (0-based) among operations of that class
    pub persistent: bool,
    pub kind: io::ErrorKind,
}

pub struct TlsClient {
    pub conn: rustls::ClientConnection,
    pub started: bool,
    pub handshaken: bool,
    /// next plaintext message to push into the TLS session
    pub next_plain: usize,
    pub failed: Option<String>,
    /// (message index, offset in the ciphertext stream at which its last record ends)
    pub marks: Vec<(usize, usize)>,
    pub produced: usize,
    pub handed: usize,
}

pub struct TState {
    rec: Rc<RefCell<Rec>>,
    msgs: Vec<Msg>,
    lockstep: bool,
    // plain client position
    cur: usize,
    off: usize,
    owed: bool, // a reply-expecting message was fully handed over and nothing was flushed since
    // bytes ready for the server (TLS mode: ciphertext produced by the rustls client)
    tls: Option<TlsClient>,
    tls_out: Vec<u8>,
    tls_plain_from: usize, // index of first message that travels inside TLS
    chunks: Vec<usize>,
    cuts: Vec<usize>, // absolute offsets of the client stream at which a read must end
    pos: usize,       // bytes of the client stream handed out so far
    chunk_i: usize,
    chunk_then: usize,
    short_writes: Vec<usize>,
    hello_version: Option<(u8, u8)>,
    tls_partial_tail: bool,
    partial_done: bool,
    sw_i: usize,
    pub pending: Vec<u8>,
    nread: u64,
    nwrite: u64,
    nflush: u64,
    nops: u64,
    budget: u64,
    fault: Option<Fault>,
    fault_hit: bool,
    pub livelock: bool,
    blocked: bool,
}

fn errkind(s: &str) -> io::ErrorKind {
    match s {
        "BrokenPipe" => io::ErrorKind::BrokenPipe,
        "ConnectionReset" => io::ErrorKind::ConnectionReset,
        "ConnectionAborted" => io::ErrorKind::ConnectionAborted,
        "TimedOut" => io::ErrorKind::TimedOut,
        "PermissionDenied" => io::ErrorKind::PermissionDenied,
        "InvalidData" => io::ErrorKind::InvalidData,
        "UnexpectedEof" => io::ErrorKind::UnexpectedEof,
        "Interrupted" => io::ErrorKind::Interrupted,
        "WriteZero" => io::ErrorKind::WriteZero,
        _ => io::ErrorKind::Other,
    }
}

impl TState {
    pub fn from_scenario(sc: &J, rec: Rc<RefCell<Rec>>) -> TState {
        let c = &sc["client"];
        let t = &sc["transport"];
        let msgs: Vec<Msg> = c["msgs"]
            .as_array()
            .map(|a| {
                a.iter()
                    .map(|m| Msg {
                        bytes: parse_bytes(&m["b"]),
                        reply: m["reply"].as_bool().unwrap_or(true),
                    })
                    .collect()
            })
            .unwrap_or_default();
        let usz = |v: &J| -> Vec<usize> {
            v.as_array()
                .map(|a| a.iter().map(|x| x.as_u64().unwrap() as usize).collect())
                .unwrap_or_default()
        };
        let fault = t.get("fault").and_then(|f| {
            if f.is_null() {
                None
            } else {
                Some(Fault {
                    on: f["on"].as_str().unwrap_or("any").to_string(),
                    at: f["at"].as_u64().unwrap_or(0),
                    persistent: f["kind"].as_str() == Some("persistent"),
                    kind: errkind(f["err"].as_str().unwrap_or("Other")),
                })
            }
        });
        let tls = if c["tls"].as_bool().unwrap_or(false) {
            Some(crate::shim::make_tls_client(sc))
        } else {
            None
        };
        TState {
            rec,
            msgs,
            lockstep: c["mode"].as_str() == Some("lockstep"),
            cur: 0,
            off: 0,
            owed: true, // the client first waits for the greeting
            tls,
            tls_out: Vec::new(),
            tls_plain_from: c["tls_from"].as_u64().unwrap_or(1) as usize,
            chunks: usz(&t["chunks"]),
            cuts: usz(&t["cuts"]),
            pos: 0,
            chunk_i: 0,
            chunk_then: t["then"].as_u64().unwrap_or(0) as usize,
            short_writes: usz(&t["short_writes"]),
            tls_partial_tail: t["tls_partial_tail"].as_bool().unwrap_or(false),
            partial_done: false,
            hello_version: t["hello_version"].as_array().map(|a| {
                (a[0].as_u64().unwrap_or(3) as u8, a[1].as_u64().unwrap_or(1) as u8)
            }),
            sw_i: 0,
            pending: Vec::new(),
            nread: 0,
            nwrite: 0,
            nflush: 0,
            nops: 0,
            budget: t["budget"].as_u64().unwrap_or(2_000_000),
            fault,
            fault_hit: false,
            livelock: false,
            blocked: false,
        }
    }

    pub fn client_left(&self) -> usize {
        let mut n = 0;
        for (i, m) in self.msgs.iter().enumerate() {
            if i > self.cur {
                n += m.bytes.len();
            } else if i == self.cur {
                n += m.bytes.len() - self.off;
            }
        }
        n + self.tls_out.len()
    }

    fn check_fault(&mut self, class: &str) -> Option<io::Error> {
        self.nops += 1;
        if self.nops > self.budget {
            self.livelock = true;
            return Some(io::Error::new(io::ErrorKind::Other, "budget exhausted"));
        }
        let idx_class = match class {
            "read" => self.nread,
            "write" => self.nwrite,
            _ => self.nflush,
        };
        match class {
            "read" => self.nread += 1,
            "write" => self.nwrite += 1,
            _ => self.nflush += 1,
        }
        let idx_any = self.nops - 1;
        if let Some(f) = &self.fault {
            let (applies, idx) = if f.on == "any" {
                (true, idx_any)
            } else {
                (f.on == class, idx_class)
            };
            let fire = if f.persistent {
                // persistent faults poison every later operation of every class
                (applies && idx >= f.at) || self.fault_hit
            } else {
                applies && idx == f.at
            };
            if fire {
                self.fault_hit = true;
                let k = f.kind;
                let ev = match class {
                    "read" => "rd_err",
                    "write" => "wr_err",
                    _ => "fl_err",
                };
                self.rec
                    .borrow_mut()
                    .emit(json!({"e": ev, "kind": format!("{:?}", k)}));
                return Some(io::Error::new(k, "injected fault"));
            }
        }
        None
    }

    /// How many bytes of the plain script may be handed out right now; None = client is blocked
    /// waiting for a reply (lock-step), Some(0) = script exhausted.
    fn plain_avail(&mut self, upto: usize) -> Option<usize> {
        // skip exhausted messages
        while self.cur < upto && self.off == self.msgs[self.cur].bytes.len() {
            self.cur += 1;
            self.off = 0;
        }
        if self.cur >= upto {
            return Some(0);
        }
        if !self.lockstep {
            let mut n = 0;
            for i in self.cur..upto {
                n += self.msgs[i].bytes.len();
            }
            return Some(n - self.off);
        }
        if self.owed && self.off == 0 {
            return None;
        }
        // up to and including the first reply-expecting message
        let mut n = 0;
        for i in self.cur..upto {
            n += self.msgs[i].bytes.len();
            if self.msgs[i].reply {
                break;
            }
        }
        Some(n - self.off)
    }

    fn plain_take(&mut self, mut n: usize, upto: usize, out: &mut Vec<u8>) {
        while n > 0 && self.cur < upto {
            let m = &self.msgs[self.cur];
            let k = std::cmp::min(n, m.bytes.len() - self.off);
            out.extend_from_slice(&m.bytes[self.off..self.off + k]);
            self.off += k;
            n -= k;
            if self.off == m.bytes.len() {
                if m.reply && self.lockstep {
                    self.owed = true;
                }
                self.cur += 1;
                self.off = 0;
            }
        }
    }

    fn tls_pump(&mut self) {
        // move whatever the rustls client wants to say into tls_out; push plaintext messages once
        // the handshake is complete (respecting lock-step)
        let lockstep = self.lockstep;
        if let Some(t) = self.tls.as_mut() {
            if t.failed.is_some() {
                return;
            }
            loop {
                if !t.conn.is_handshaking() {
                    if !t.handshaken {
                        t.handshaken = true;
                    }
                    // push plaintext
                    while t.next_plain < self.msgs.len() {
                        if lockstep && self.owed {
                            break;
                        }
                        let m = &self.msgs[t.next_plain];
                        let b = m.bytes.clone();
                        let reply = m.reply;
                        let _ = t.conn.writer().write_all(&b);
                        while t.conn.wants_write() {
                            let mut buf = Vec::new();
                            let _ = t.conn.write_tls(&mut buf);
                            t.produced += buf.len();
                            self.tls_out.extend_from_slice(&buf);
                        }
                        t.marks.push((t.next_plain, t.produced));
                        t.next_plain += 1;
                        if reply && lockstep {
                            self.owed = true;
                        }
                    }
                    // a TLS client that is done closes its side properly (close_notify); without it the end of the
                    // transport stream is indistinguishable from a truncation
                    if !self.tls_partial_tail && !self.partial_done && t.next_plain >= self.msgs.len() && !(lockstep && self.owed) {
                        t.conn.send_close_notify();
                        self.partial_done = true;
                        self.rec.borrow_mut().emit(json!({"e": "tls_close"}));
                    }
                    // "partial_tail": once the script is out, the client starts one more record (a ping) and the
                    // connection is cut in the middle of it
                    if self.tls_partial_tail && !self.partial_done && t.next_plain >= self.msgs.len() && !(lockstep && self.owed) {
                        let _ = t.conn.writer().write_all(&[1u8, 0, 0, 0, 14]);
                        let mut buf = Vec::new();
                        while t.conn.wants_write() {
                            let _ = t.conn.write_tls(&mut buf);
                        }
                        let half = buf.len() / 2;
                        self.tls_out.extend_from_slice(&buf[..half]);
                        t.produced += half;
                        self.partial_done = true;
                        self.rec
                            .borrow_mut()
                            .emit(json!({"e": "tls_partial", "bytes": half}));
                    }
                }
                if t.conn.wants_write() {
                    let mut buf = Vec::new();
                    let _ = t.conn.write_tls(&mut buf);
                    // "hello_version": the record-layer version of the first record (the ClientHello); it is
                    // not part of the handshake transcript: 0x0301 (rustls, OpenSSL), 0x0303 (RFC 8446, JSSE)
                    if t.produced == 0 && buf.len() >= 3 && buf[0] == 0x16 {
                        if let Some(v) = self.hello_version {
                            buf[1] = v.0;
                            buf[2] = v.1;
                        }
                    }
                    t.produced += buf.len();
                    self.tls_out.extend_from_slice(&buf);
                } else {
                    break;
                }
            }
        }
    }

    fn tls_feed(&mut self, data: &[u8]) {
        // server -> client bytes after the TLS switch
        let mut plain = Vec::new();
        if let Some(t) = self.tls.as_mut() {
            if t.failed.is_some() {
                return;
            }
            let mut cur = io::Cursor::new(data);
            while (cur.position() as usize) < data.len() {
                match t.conn.read_tls(&mut cur) {
                    Ok(0) => break,
                    Ok(_) => {}
                    Err(e) => {
                        t.failed = Some(format!("read_tls: {}", e));
                        break;
                    }
                }
                match t.conn.process_new_packets() {
                    Ok(_) => {}
                    Err(e) => {
                        t.failed = Some(format!("tls: {}", e));
                        break;
                    }
                }
                let mut buf = [0u8; 16384];
                loop {
                    match t.conn.reader().read(&mut buf) {
                        Ok(0) => break,
                        Ok(n) => plain.extend_from_slice(&buf[..n]),
                        Err(_) => break,
                    }
                }
            }
            if let Some(f) = &t.failed {
                self.rec
                    .borrow_mut()
                    .emit(json!({"e": "tls_fail", "msg": f}));
            }
        }
        if !plain.is_empty() {
            let b = self.rec.borrow().bytes(&plain);
            self.rec.borrow_mut().emit(json!({"e": "p_wr", "b": b}));
            self.owed = false;
        }
    }

    fn do_read(&mut self, buf: &mut [u8]) -> io::Result<usize> {
        if let Some(e) = self.check_fault("read") {
            return Err(e);
        }
        let want = buf.len();
        let chunk = if self.chunk_i < self.chunks.len() {
            let c = self.chunks[self.chunk_i];
            self.chunk_i += 1;
            c
        } else {
            self.chunk_then
        };
        let mut cap = if chunk == 0 {
            want
        } else {
            std::cmp::min(want, chunk)
        };
        if let Some(c) = self.cuts.iter().find(|c| **c > self.pos) {
            cap = std::cmp::min(cap, *c - self.pos);
        }
        let mut got: Vec<u8> = Vec::new();
        let tls_mode = self.tls.is_some();
        let upto = if tls_mode {
            std::cmp::min(self.tls_plain_from, self.msgs.len())
        } else {
            self.msgs.len()
        };
        // 1. plaintext part of the script
        match self.plain_avail(upto) {
            None => {
                self.blocked = true;
                self.rec
                    .borrow_mut()
                    .emit(json!({"e": "rd_block", "want": want}));
                self.rec
                    .borrow_mut()
                    .emit(json!({"e": "rd", "want": want, "got": []}));
                return Ok(0);
            }
            Some(n) if n > 0 => {
                let k = std::cmp::min(n, cap);
                self.plain_take(k, upto, &mut got);
                if tls_mode && self.cur >= upto {
                    // the SSL request is out: from now on everything is TLS
                    if let Some(t) = self.tls.as_mut() {
                        if !t.started {
                            t.started = true;
                            self.owed = false;
                        }
                    }
                }
            }
            Some(_) => {}
        }
        // 2. TLS bytes (may be coalesced with the tail of the SSL request in one read)
        if tls_mode && got.len() < cap && self.cur >= upto {
            if let Some(t) = self.tls.as_mut() {
                if !t.started {
                    t.started = true;
                    self.owed = false;
                }
            }
            self.tls_pump();
            let k = std::cmp::min(cap - got.len(), self.tls_out.len());
            got.extend(self.tls_out.drain(..k));
            if let Some(t) = self.tls.as_mut() {
                t.handed += k;
            }
            if got.is_empty() {
                let done = self
                    .tls
                    .as_ref()
                    .map(|t| t.next_plain >= self.msgs.len() || t.failed.is_some())
                    .unwrap_or(true);
                if !done {
                    // the TLS client has nothing to send but the script is not finished: a real
                    // client would be waiting for the server here
                    self.blocked = true;
                    self.rec
                        .borrow_mut()
                        .emit(json!({"e": "rd_block", "want": want}));
                }
            }
        }
        self.pos += got.len();
        let b = self.rec.borrow().bytes(&got);
        self.rec
            .borrow_mut()
            .emit(json!({"e": "rd", "want": want, "got": b}));
        // plaintext messages whose TLS records have now been handed over completely
        if let Some(t) = self.tls.as_mut() {
            let handed = t.handed;
            let ready: Vec<usize> = t.marks.iter().filter(|m| m.1 <= handed).map(|m| m.0).collect();
            t.marks.retain(|m| m.1 > handed);
            for i in ready {
                let mb = self.rec.borrow().bytes(&self.msgs[i].bytes);
                self.rec
                    .borrow_mut()
                    .emit(json!({"e": "p_send", "i": i, "b": mb}));
            }
        }
        buf[..got.len()].copy_from_slice(&got);
        Ok(got.len())
    }

    fn do_write(&mut self, buf: &[u8]) -> io::Result<usize> {
        if let Some(e) = self.check_fault("write") {
            // fault "WriteZero": the transport does not report an error, it just accepts nothing (Ok(0))
            if e.kind() == io::ErrorKind::WriteZero && !self.livelock {
                return Ok(0);
            }
            return Err(e);
        }
        let n = if self.short_writes.is_empty() {
            buf.len()
        } else {
            let s = self.short_writes[self.sw_i % self.short_writes.len()];
            self.sw_i += 1;
            std::cmp::max(1, std::cmp::min(s, buf.len()))
        };
        let n = std::cmp::min(n, buf.len());
        self.pending.extend_from_slice(&buf[..n]);
        let b = self.rec.borrow().bytes(&buf[..n]);
        self.rec.borrow_mut().emit(json!({"e": "wr", "b": b}));
        Ok(n)
    }

    fn do_flush(&mut self) -> io::Result<()> {
        if let Some(e) = self.check_fault("flush") {
            return Err(e);
        }
        self.rec.borrow_mut().emit(json!({"e": "fl"}));
        if !self.pending.is_empty() {
            let data = std::mem::take(&mut self.pending);
            let started = self.tls.as_ref().map(|t| t.started).unwrap_or(false);
            if started {
                self.tls_feed(&data);
            } else {
                self.owed = false;
            }
        }
        Ok(())
    }
}

pub struct Transport {
    pub inner: Rc<RefCell<TState>>,
}

impl Read for Transport {
    fn read(&mut self, buf: &mut [u8]) -> io::Result<usize> {
        self.inner.borrow_mut().do_read(buf)
    }
}

impl Write for Transport {
    fn write(&mut self, buf: &[u8]) -> io::Result<usize> {
        self.inner.borrow_mut().do_write(buf)
    }
    fn flush(&mut self) -> io::Result<()> {
        self.inner.borrow_mut().do_flush()
    }
}

#[allow(dead_code)]
pub fn arc_unused(_: Arc<()>) {}
