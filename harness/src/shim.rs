//! ProgramShim: implements `MysqlShim` by interpreting scenario programs against the real writer
//! objects, logging every call with its outcome.

use crate::rec::{parse_bytes, Rec};
use crate::transport::{TlsClient, Transport};
use crate::values::{kind_by_name, mkcols, mkval, AnyVal};
use msql_srv::{
    AuthenticationContext, Column, ErrorKind, InitWriter, MysqlShim, ParamParser, QueryResultWriter,
    RowWriter, StatementMetaWriter, ValueInner,
};
use serde_json::{json, Value as J};
use std::cell::RefCell;
use std::io;
use std::panic::{self, AssertUnwindSafe};
use std::rc::Rc;
use std::sync::Arc;

pub enum SErr {
    Io(io::Error),
    Shim(u64),
    Panic,
}

impl From<io::Error> for SErr {
    fn from(e: io::Error) -> Self {
        SErr::Io(e)
    }
}

pub struct Shared {
    pub sc: J,
    pub rec: Rc<RefCell<Rec>>,
    pub prog_i: usize,
    pub prep_i: usize,
    pub panicked: Option<(String, String)>,
    pub tls_conf: Option<Arc<rustls::ServerConfig>>,
}

impl Shared {
    pub fn new(sc: &J, rec: Rc<RefCell<Rec>>) -> Shared {
        let tls_conf = if sc["shim"]["tls"].as_bool().unwrap_or(false) {
            Some(make_server_config(sc))
        } else {
            None
        };
        Shared {
            sc: sc.clone(),
            rec,
            prog_i: 0,
            prep_i: 0,
            panicked: None,
            tls_conf,
        }
    }
    fn emit(&self, v: J) {
        self.rec.borrow_mut().emit(v);
    }
    fn bytes(&self, b: &[u8]) -> J {
        self.rec.borrow().bytes(b)
    }
    fn note_panic(&mut self) -> String {
        let (loc, msg) = crate::take_panic().unwrap_or(("?".into(), "?".into()));
        if msg.starts_with("scenario:") {
            eprintln!("bad scenario {}: {}", self.sc["id"], msg);
            std::process::exit(2);
        }
        let site = crate::panic_site(&loc);
        if self.panicked.is_none() {
            self.panicked = Some((site.clone(), msg));
        }
        site
    }
    fn next_program(&mut self) -> Vec<J> {
        let p = self.sc["shim"]["programs"]
            .get(self.prog_i)
            .and_then(|p| p.as_array().cloned());
        self.prog_i += 1;
        // default: acknowledge with completed(0,0)
        p.unwrap_or_else(|| vec![json!({"op": "completed", "rows": le64(0), "id": le64(0)})])
    }
}

fn le64(x: u64) -> Vec<u8> {
    x.to_le_bytes().to_vec()
}

fn u64_of(v: &J) -> u64 {
    let b = parse_bytes(v);
    let mut a = [0u8; 8];
    a.copy_from_slice(&b[..8]);
    u64::from_le_bytes(a)
}

pub struct PShim {
    pub sh: Rc<RefCell<Shared>>,
}

enum WS<'a> {
    Q(QueryResultWriter<'a, Transport>),
    R(RowWriter<'a, Transport>),
    Done,
}

fn resname(r: &Result<io::Result<()>, ()>) -> &'static str {
    match r {
        Ok(Ok(())) => "ok",
        Ok(Err(_)) => "err",
        Err(()) => "panic",
    }
}

/// Run one writer program. `cols` holds the column lists of all `start` ops of the program, in
/// order, allocated by the caller *before* the writer so that they outlive it.
fn run_program<'a>(
    sh: &Rc<RefCell<Shared>>,
    ops: &[J],
    cols: &'a [Vec<Column>],
    results: QueryResultWriter<'a, Transport>,
) -> Result<(), SErr> {
    let mut st = WS::Q(results);
    let mut start_i = 0usize;
    let mut ret: Result<(), SErr> = Ok(());
    for op in ops {
        let name = op["op"].as_str().unwrap_or("?");
        if name == "return_err" {
            ret = Err(SErr::Shim(op["token"].as_u64().unwrap_or(0)));
            sh.borrow().emit(json!({"e": "w", "op": op, "res": "ok", "st": "x"}));
            break;
        }
        if name == "return_ok" {
            sh.borrow().emit(json!({"e": "w", "op": op, "res": "ok", "st": "x"}));
            break;
        }
        let _ = crate::take_panic();
        // take the state by value; each arm puts the successor state back
        let stname = match &st {
            WS::Q(_) => "q",
            WS::R(_) => "r",
            WS::Done => "done",
        };
        let cur = std::mem::replace(&mut st, WS::Done);
        let mut next = WS::Done;
        let mut misuse = false;
        let r: Result<io::Result<()>, ()> = {
            let nextref = &mut next;
            let misref = &mut misuse;
            let si = &mut start_i;
            panic::catch_unwind(AssertUnwindSafe(move || -> io::Result<()> {
                match (name, cur) {
                    ("start", WS::Q(q)) => {
                        let c = &cols[*si][..];
                        *si += 1;
                        match q.start(c) {
                            Ok(rw) => {
                                *nextref = WS::R(rw);
                                Ok(())
                            }
                            Err(e) => Err(e),
                        }
                    }
                    ("complete_one", WS::Q(q)) => {
                        match q.complete_one(u64_of(&op["rows"]), u64_of(&op["id"])) {
                            Ok(q2) => {
                                *nextref = WS::Q(q2);
                                Ok(())
                            }
                            Err(e) => Err(e),
                        }
                    }
                    ("completed", WS::Q(q)) => q.completed(u64_of(&op["rows"]), u64_of(&op["id"])),
                    ("error", WS::Q(q)) => {
                        let k = kind_by_name(op["kind"].as_str().unwrap()).expect("scenario: kind");
                        let m = parse_bytes(&op["msg"]);
                        q.error(k, &m[..])
                    }
                    ("no_more_results", WS::Q(q)) => q.no_more_results(),
                    // a database-switch script that ended up in on_query/on_execute (mis-routing is
                    // judged by the monitor, not by the harness)
                    ("init_ok", WS::Q(q)) => q.completed(0, 0),
                    ("init_err", WS::Q(q)) => {
                        let k = kind_by_name(op["kind"].as_str().unwrap()).expect("scenario: kind");
                        let m = parse_bytes(&op["msg"]);
                        q.error(k, &m[..])
                    }
                    ("drop", WS::Q(q)) => {
                        drop(q);
                        Ok(())
                    }
                    ("write_col", WS::R(mut rw)) => {
                        let v: AnyVal = mkval(&op["v"]);
                        // "ref": the shim hands the value over by reference (`&T: ToMysqlValue`)
                        let r = if op["ref"].as_bool().unwrap_or(false) {
                            rw.write_col(&v)
                        } else {
                            rw.write_col(v)
                        };
                        *nextref = WS::R(rw);
                        r
                    }
                    ("end_row", WS::R(mut rw)) => {
                        // "times": the call repeated (one event for all; stops at the first refusal)
                        let times = op["times"].as_u64().unwrap_or(1);
                        let mut r = Ok(());
                        for _ in 0..times {
                            r = rw.end_row();
                            if r.is_err() {
                                break;
                            }
                        }
                        *nextref = WS::R(rw);
                        r
                    }
                    ("write_row", WS::R(mut rw)) => {
                        let vs: Vec<AnyVal> = op["vs"]
                            .as_array()
                            .map(|a| a.iter().map(mkval).collect())
                            .unwrap_or_default();
                        let r = if op["ref"].as_bool().unwrap_or(false) {
                            rw.write_row(&vs)
                        } else {
                            rw.write_row(vs)
                        };
                        *nextref = WS::R(rw);
                        r
                    }
                    ("finish", WS::R(rw)) => rw.finish(),
                    ("finish_one", WS::R(rw)) => match rw.finish_one() {
                        Ok(q) => {
                            *nextref = WS::Q(q);
                            Ok(())
                        }
                        Err(e) => Err(e),
                    },
                    ("finish_error", WS::R(rw)) => {
                        let k = kind_by_name(op["kind"].as_str().unwrap()).expect("scenario: kind");
                        let m = parse_bytes(&op["msg"]);
                        rw.finish_error(k, &m)
                    }
                    ("drop", WS::R(rw)) => {
                        drop(rw);
                        Ok(())
                    }
                    (_, other) => {
                        // op does not apply in this typestate: scenario error; keep state
                        *misref = true;
                        *nextref = other;
                        Ok(())
                    }
                }
            }))
            .map_err(|_| ())
        };
        if misuse {
            eprintln!("scenario error: op {} in wrong state", name);
            std::process::exit(2);
        }
        let mut ev = json!({"e": "w", "op": op, "res": resname(&r), "st": stname});
        match r {
            Ok(Ok(())) => {
                st = next;
                sh.borrow().emit(ev);
            }
            Ok(Err(e)) => {
                st = next;
                ev["kind"] = json!(format!("{:?}", e.kind()));
                sh.borrow().emit(ev);
                // "cont": the shim handles this refusal and carries on with the same writer
                if !op["cont"].as_bool().unwrap_or(false) {
                    // the realistic shim: `?`
                    ret = Err(SErr::Io(e));
                    break;
                }
            }
            Err(()) => {
                let site = sh.borrow_mut().note_panic();
                ev["site"] = json!(site);
                sh.borrow().emit(ev);
                // the writer that panicked was consumed by the unwinding
                st = WS::Done;
                ret = Err(SErr::Panic);
                break;
            }
        }
    }
    // implicit drop of whatever is still alive
    let alive = match &st {
        WS::Q(_) => Some("q"),
        WS::R(_) => Some("r"),
        WS::Done => None,
    };
    if let Some(which) = alive {
        let _ = crate::take_panic();
        let r = panic::catch_unwind(AssertUnwindSafe(move || drop(st)));
        let mut ev = json!({"e": "w", "op": {"op": "drop", "implicit": true}, "st": which});
        match r {
            Ok(()) => {
                ev["res"] = json!("ok");
                sh.borrow().emit(ev);
            }
            Err(_) => {
                let site = sh.borrow_mut().note_panic();
                ev["res"] = json!("panic");
                ev["site"] = json!(site);
                sh.borrow().emit(ev);
                if ret.is_ok() {
                    ret = Err(SErr::Panic);
                }
            }
        }
    }
    ret
}

fn retname(r: &Result<(), SErr>) -> J {
    match r {
        Ok(()) => json!({"k": "ok", "token": -1}),
        Err(SErr::Io(e)) => json!({"k": "io", "kind": format!("{:?}", e.kind()), "token": -1}),
        Err(SErr::Shim(t)) => json!({"k": "shim", "token": t}),
        Err(SErr::Panic) => json!({"k": "panic", "token": -1}),
    }
}

fn start_cols(ops: &[J]) -> Vec<Vec<Column>> {
    ops.iter()
        .filter(|o| o["op"].as_str() == Some("start"))
        .map(|o| mkcols(&o["cols"]))
        .collect()
}

impl PShim {
    fn log_params(&self, params: ParamParser<'_>) -> bool {
        // returns false if decoding panicked
        let sh = self.sh.clone();
        let _ = crate::take_panic();
        let r = panic::catch_unwind(AssertUnwindSafe(|| {
            // "params_skip": the shim fetches the k-th parameter first (Iterator::nth) and walks on from there
            let skip = sh.borrow().sc["shim"]["params_skip"].as_u64().unwrap_or(0) as usize;
            let mut idx = skip;
            for p in params.into_iter().skip(skip) {
                let ct = p.coltype as u8;
                let val = p.value;
                let shb = sh.borrow();
                let mut ev = json!({"e": "pv", "idx": idx, "ct": ct});
                let inner = val.into_inner();
                let (ik, conv_kind): (J, &str) = match inner {
                    ValueInner::NULL => (json!({"t": "null"}), "none"),
                    ValueInner::Bytes(b) => (json!({"t": "bytes", "b": shb.bytes(b)}), "bytes"),
                    ValueInner::Int(i) => (json!({"t": "int", "le": le64(i as u64)}), "int"),
                    ValueInner::UInt(u) => (json!({"t": "uint", "le": le64(u)}), "uint"),
                    ValueInner::Double(d) => {
                        (json!({"t": "double", "le": le64(d.to_bits())}), "double")
                    }
                    ValueInner::Date(b) => (json!({"t": "date", "b": shb.bytes(b)}), "date"),
                    ValueInner::Time(b) => (json!({"t": "time", "b": shb.bytes(b)}), "time"),
                    ValueInner::Datetime(b) => {
                        (json!({"t": "datetime", "b": shb.bytes(b)}), "datetime")
                    }
                };
                ev["inner"] = ik;
                drop(shb);
                // documented Into<T> conversion for the bound type
                let conv = panic::catch_unwind(AssertUnwindSafe(|| -> J {
                    match conv_kind {
                        "int" | "uint" => {
                            // convert to the Rust type matching the bound column type; signedness
                            // follows the inner variant
                            let signed = conv_kind == "int";
                            let w = match ct {
                                1 => 1,
                                2 | 13 => 2,
                                3 | 9 => 4,
                                _ => 8,
                            };
                            let bits: u64 = match (w, signed) {
                                (1, true) => Into::<i8>::into(val) as i64 as u64,
                                (1, false) => Into::<u8>::into(val) as u64,
                                (2, true) => Into::<i16>::into(val) as i64 as u64,
                                (2, false) => Into::<u16>::into(val) as u64,
                                (4, true) => Into::<i32>::into(val) as i64 as u64,
                                (4, false) => Into::<u32>::into(val) as u64,
                                (_, true) => Into::<i64>::into(val) as u64,
                                (_, false) => Into::<u64>::into(val),
                            };
                            json!({"t": "int", "w": w, "s": signed, "le": le64(bits)})
                        }
                        "double" => {
                            if ct == 4 {
                                let f: f32 = val.into();
                                json!({"t": "f32", "le": f.to_bits().to_le_bytes().to_vec()})
                            } else {
                                let f: f64 = val.into();
                                json!({"t": "f64", "le": le64(f.to_bits())})
                            }
                        }
                        "bytes" => {
                            let b: &[u8] = val.into();
                            let mut o = json!({"t": "bytes", "b": sh.borrow().bytes(b)});
                            if std::str::from_utf8(b).is_ok() {
                                let s: &str = val.into();
                                o["s"] = sh.borrow().bytes(s.as_bytes());
                            }
                            o
                        }
                        "date" => {
                            use chrono::Datelike;
                            let d: chrono::NaiveDate = val.into();
                            json!({"t": "date", "v": [d.year(), d.month(), d.day()]})
                        }
                        "datetime" => {
                            use chrono::{Datelike, Timelike};
                            let d: chrono::NaiveDateTime = val.into();
                            json!({"t": "datetime", "v": [d.year(), d.month(), d.day(), d.hour(), d.minute(), d.second(), d.nanosecond() / 1000]})
                        }
                        "time" => {
                            let d: std::time::Duration = val.into();
                            // (seconds beyond 31 bits are given as bytes only: TLC integers are 32-bit)
                            let secs = d.as_secs();
                            let small: i64 = if secs < (1u64 << 31) { secs as i64 } else { -1 };
                            json!({"t": "time", "v": [small, d.subsec_micros()], "secs8": le64(secs)})
                        }
                        _ => json!({"t": "none"}),
                    }
                }));
                match conv {
                    Ok(c) => ev["conv"] = c,
                    Err(_) => {
                        let (loc, msg) = crate::take_panic().unwrap_or(("?".into(), "?".into()));
                        ev["conv"] = json!({"t": "panic", "site": crate::panic_site(&loc), "msg": msg});
                    }
                }
                sh.borrow().emit(ev);
                idx += 1;
            }
        }));
        if r.is_err() {
            let site = self.sh.borrow_mut().note_panic();
            self.sh
                .borrow()
                .emit(json!({"e": "pv_panic", "site": site}));
            return false;
        }
        true
    }
}

impl MysqlShim<Transport> for PShim {
    type Error = SErr;

    fn on_prepare(
        &mut self,
        query: &str,
        info: StatementMetaWriter<'_, Transport>,
    ) -> Result<(), SErr> {
        let (spec, tb) = {
            let mut sh = self.sh.borrow_mut();
            let s = sh.sc["shim"]["prepares"].get(sh.prep_i).cloned();
            sh.prep_i += 1;
            let tb = sh.bytes(query.as_bytes());
            (s, tb)
        };
        self.sh
            .borrow()
            .emit(json!({"e": "cb", "name": "on_prepare", "text": tb}));
        let spec = spec.unwrap_or_else(|| json!({"id": [1, 0, 0, 0], "params": [], "cols": []}));
        let _ = crate::take_panic();
        let ret: Result<(), SErr>;
        if spec.get("err").is_some() && !spec["err"].is_null() {
            let k: ErrorKind =
                kind_by_name(spec["err"]["kind"].as_str().unwrap()).expect("scenario: kind");
            let m = parse_bytes(&spec["err"]["msg"]);
            let r = panic::catch_unwind(AssertUnwindSafe(move || info.error(k, &m[..])));
            let res = match &r {
                Ok(Ok(())) => "ok",
                Ok(Err(_)) => "err",
                Err(_) => "panic",
            };
            self.sh.borrow().emit(
                json!({"e": "w", "op": {"op": "perror", "kind": spec["err"]["kind"], "msg": spec["err"]["msg"]}, "res": res, "st": "p"}),
            );
            ret = match r {
                Ok(Ok(())) => Ok(()),
                Ok(Err(e)) => Err(SErr::Io(e)),
                Err(_) => {
                    self.sh.borrow_mut().note_panic();
                    Err(SErr::Panic)
                }
            };
        } else {
            let idb = parse_bytes(&spec["id"]);
            let id = u32::from_le_bytes([idb[0], idb[1], idb[2], idb[3]]);
            let params = mkcols(&spec["params"]);
            let cols = mkcols(&spec["cols"]);
            let r = panic::catch_unwind(AssertUnwindSafe(|| info.reply(id, &params, &cols)));
            let res = match &r {
                Ok(Ok(())) => "ok",
                Ok(Err(_)) => "err",
                Err(_) => "panic",
            };
            self.sh.borrow().emit(
                json!({"e": "w", "op": {"op": "reply", "id": spec["id"], "params": spec["params"], "cols": spec["cols"]}, "res": res, "st": "p"}),
            );
            ret = match r {
                Ok(Ok(())) => Ok(()),
                Ok(Err(e)) => Err(SErr::Io(e)),
                Err(_) => {
                    self.sh.borrow_mut().note_panic();
                    Err(SErr::Panic)
                }
            };
        }
        let ret = match (ret, spec.get("then_err").and_then(|t| t.as_u64())) {
            (Ok(()), Some(t)) => Err(SErr::Shim(t)),
            (r, _) => r,
        };
        self.sh
            .borrow()
            .emit(json!({"e": "cb_ret", "name": "on_prepare", "ret": retname(&ret)}));
        ret
    }

    fn on_execute(
        &mut self,
        id: u32,
        params: ParamParser<'_>,
        results: QueryResultWriter<'_, Transport>,
    ) -> Result<(), SErr> {
        self.sh
            .borrow()
            .emit(json!({"e": "cb", "name": "on_execute", "id": id.to_le_bytes().to_vec(),
                "skip": self.sh.borrow().sc["shim"]["params_skip"].as_u64().unwrap_or(0)}));
        let ops = self.sh.borrow_mut().next_program();
        let cols = start_cols(&ops);
        let ok = self.log_params(params);
        let ret = if !ok {
            // parameter decoding panicked; leave the writer to its Drop (which sends nothing)
            let r = panic::catch_unwind(AssertUnwindSafe(move || drop(results)));
            if r.is_err() {
                self.sh.borrow_mut().note_panic();
            }
            Err(SErr::Panic)
        } else {
            run_program(&self.sh, &ops, &cols, results)
        };
        self.sh
            .borrow()
            .emit(json!({"e": "cb_ret", "name": "on_execute", "ret": retname(&ret)}));
        ret
    }

    fn on_close(&mut self, stmt: u32) {
        self.sh
            .borrow()
            .emit(json!({"e": "cb", "name": "on_close", "id": stmt.to_le_bytes().to_vec()}));
        self.sh
            .borrow()
            .emit(json!({"e": "cb_ret", "name": "on_close", "ret": {"k": "ok", "token": -1}}));
    }

    fn on_query(
        &mut self,
        query: &str,
        results: QueryResultWriter<'_, Transport>,
    ) -> Result<(), SErr> {
        let tb = self.sh.borrow().bytes(query.as_bytes());
        self.sh
            .borrow()
            .emit(json!({"e": "cb", "name": "on_query", "text": tb}));
        let ops = self.sh.borrow_mut().next_program();
        let cols = start_cols(&ops);
        let ret = run_program(&self.sh, &ops, &cols, results);
        self.sh
            .borrow()
            .emit(json!({"e": "cb_ret", "name": "on_query", "ret": retname(&ret)}));
        ret
    }

    fn on_init(&mut self, schema: &str, w: InitWriter<'_, Transport>) -> Result<(), SErr> {
        let tb = self.sh.borrow().bytes(schema.as_bytes());
        self.sh
            .borrow()
            .emit(json!({"e": "cb", "name": "on_init", "text": tb}));
        let ops = self.sh.borrow_mut().next_program();
        let op = ops.get(0).cloned().unwrap_or(json!({"op": "init_ok"}));
        let name = op["op"].as_str().unwrap_or("init_ok");
        let _ = crate::take_panic();
        let mut ret: Result<(), SErr> = Ok(());
        match name {
            "init_err" => {
                let k = kind_by_name(op["kind"].as_str().unwrap()).expect("scenario: kind");
                let m = parse_bytes(&op["msg"]);
                let r = w.error(k, &m[..]);
                self.sh.borrow().emit(
                    json!({"e": "w", "op": op, "res": if r.is_ok() {"ok"} else {"err"}, "st": "i"}),
                );
                if let Err(e) = r {
                    ret = Err(SErr::Io(e));
                }
            }
            "return_err" => {
                self.sh
                    .borrow()
                    .emit(json!({"e": "w", "op": op, "res": "ok", "st": "i"}));
                ret = Err(SErr::Shim(op["token"].as_u64().unwrap_or(0)));
            }
            _ => {
                // completed / init_ok / anything else: acknowledge
                let r = w.ok();
                self.sh.borrow().emit(
                    json!({"e": "w", "op": {"op": "init_ok"}, "res": if r.is_ok() {"ok"} else {"err"}, "st": "i"}),
                );
                if let Err(e) = r {
                    ret = Err(SErr::Io(e));
                }
            }
        }
        if ret.is_ok() {
            if let Some(t) = ops.get(1).and_then(|o| {
                if o["op"].as_str() == Some("return_err") {
                    o["token"].as_u64()
                } else {
                    None
                }
            }) {
                ret = Err(SErr::Shim(t));
            }
        }
        self.sh
            .borrow()
            .emit(json!({"e": "cb_ret", "name": "on_init", "ret": retname(&ret)}));
        ret
    }

    fn tls_config(&self) -> Option<Arc<rustls::ServerConfig>> {
        self.sh.borrow().tls_conf.clone()
    }

    fn after_authentication(&mut self, ctx: &AuthenticationContext<'_>) -> Result<(), SErr> {
        let sh = self.sh.borrow();
        let (user, has_user) = match &ctx.username {
            Some(u) => (sh.bytes(u), true),
            None => (json!([]), false),
        };
        let ncerts = ctx.tls_client_certs.map(|c| c.len() as i64).unwrap_or(-1);
        let certs: Vec<J> = ctx
            .tls_client_certs
            .map(|c| c.iter().map(|d| fingerprint(d.as_ref())).collect())
            .unwrap_or_default();
        sh.emit(json!({"e": "cb", "name": "auth", "user": user, "has_user": has_user, "ncerts": ncerts, "certs": certs}));
        let reject = sh.sc["shim"]["auth"].as_str() == Some("reject");
        let ret = if reject {
            Err(SErr::Shim(sh.sc["shim"]["auth_token"].as_u64().unwrap_or(4242)))
        } else {
            Ok(())
        };
        sh.emit(json!({"e": "cb_ret", "name": "auth", "ret": retname(&ret)}));
        ret
    }
}

/// A shim that leaves `on_init` at the trait's default.
pub struct DefaultInitShim(pub PShim);

impl MysqlShim<Transport> for DefaultInitShim {
    type Error = SErr;
    fn on_prepare(&mut self, q: &str, i: StatementMetaWriter<'_, Transport>) -> Result<(), SErr> {
        self.0.on_prepare(q, i)
    }
    fn on_execute(
        &mut self,
        id: u32,
        p: ParamParser<'_>,
        r: QueryResultWriter<'_, Transport>,
    ) -> Result<(), SErr> {
        self.0.on_execute(id, p, r)
    }
    fn on_close(&mut self, s: u32) {
        self.0.on_close(s)
    }
    fn on_query(&mut self, q: &str, r: QueryResultWriter<'_, Transport>) -> Result<(), SErr> {
        self.0.on_query(q, r)
    }
    fn tls_config(&self) -> Option<Arc<rustls::ServerConfig>> {
        self.0.tls_config()
    }
    fn after_authentication(&mut self, c: &AuthenticationContext<'_>) -> Result<(), SErr> {
        self.0.after_authentication(c)
    }
}

// ---------------------------------------------------------------------------------------------
// TLS material (deterministic per process: generated once, self-signed)

struct TlsMaterial {
    server_cert: Vec<u8>,
    server_key: Vec<u8>,
    client_cert: Vec<u8>,
    client_key: Vec<u8>,
    // a client certificate chain: leaf signed by an intermediate CA signed by a root CA
    chain_root: Vec<u8>,
    chain_inter: Vec<u8>,
    chain_leaf: Vec<u8>,
    chain_leaf_key: Vec<u8>,
}

fn ca_params(cn: &str) -> rcgen::CertificateParams {
    let mut p = rcgen::CertificateParams::new(Vec::<String>::new());
    p.is_ca = rcgen::IsCa::Ca(rcgen::BasicConstraints::Unconstrained);
    p.distinguished_name = rcgen::DistinguishedName::new();
    p.distinguished_name.push(rcgen::DnType::CommonName, cn);
    p
}

/// the certificates the scripted client presents (DER), leaf first; empty when it presents none
pub fn client_chain(sc: &J) -> Vec<Vec<u8>> {
    if !sc["client"]["cert"].as_bool().unwrap_or(false) {
        return Vec::new();
    }
    let m = tls_material();
    match sc["client"]["cert_chain"].as_u64().unwrap_or(0) {
        0 | 1 => vec![m.client_cert.clone()],
        2 => vec![m.chain_leaf.clone(), m.chain_inter.clone()],
        _ => vec![m.chain_leaf.clone(), m.chain_inter.clone(), m.chain_root.clone()],
    }
}

pub fn fingerprint(der: &[u8]) -> J {
    let sum: u64 = der.iter().enumerate().map(|(i, b)| (*b as u64) * ((i % 251) as u64 + 1)).sum();
    json!([der.len(), sum % 1000003])
}

thread_local! {
    static TLS_MAT: RefCell<Option<Rc<TlsMaterial>>> = RefCell::new(None);
}

fn tls_material() -> Rc<TlsMaterial> {
    TLS_MAT.with(|m| {
        let mut m = m.borrow_mut();
        if m.is_none() {
            let s = rcgen::generate_simple_self_signed(vec!["localhost".to_string()]).unwrap();
            let c = rcgen::generate_simple_self_signed(vec!["client".to_string()]).unwrap();
            let root = rcgen::Certificate::from_params(ca_params("verif root")).unwrap();
            let inter = rcgen::Certificate::from_params(ca_params("verif intermediate")).unwrap();
            let mut lp = rcgen::CertificateParams::new(vec!["client".to_string()]);
            lp.distinguished_name = rcgen::DistinguishedName::new();
            lp.distinguished_name.push(rcgen::DnType::CommonName, "verif leaf");
            let leaf = rcgen::Certificate::from_params(lp).unwrap();
            *m = Some(Rc::new(TlsMaterial {
                server_cert: s.serialize_der().unwrap(),
                server_key: s.serialize_private_key_der(),
                client_cert: c.serialize_der().unwrap(),
                client_key: c.serialize_private_key_der(),
                chain_root: root.serialize_der().unwrap(),
                chain_inter: inter.serialize_der_with_signer(&root).unwrap(),
                chain_leaf: leaf.serialize_der_with_signer(&inter).unwrap(),
                chain_leaf_key: leaf.serialize_private_key_der(),
            }));
        }
        m.as_ref().unwrap().clone()
    })
}

fn make_server_config(sc: &J) -> Arc<rustls::ServerConfig> {
    use rustls::pki_types::{CertificateDer, PrivateKeyDer, PrivatePkcs8KeyDer};
    let m = tls_material();
    let want_client = sc["shim"]["client_cert"].as_bool().unwrap_or(false);
    let builder = rustls::ServerConfig::builder();
    let builder = if want_client {
        let mut roots = rustls::RootCertStore::empty();
        roots
            .add(CertificateDer::from(m.client_cert.clone()))
            .unwrap();
        roots
            .add(CertificateDer::from(m.chain_root.clone()))
            .unwrap();
        let verifier = rustls::server::WebPkiClientVerifier::builder(Arc::new(roots))
            .allow_unauthenticated()
            .build()
            .unwrap();
        builder.with_client_cert_verifier(verifier)
    } else {
        builder.with_no_client_auth()
    };
    let cfg = builder
        .with_single_cert(
            vec![CertificateDer::from(m.server_cert.clone())],
            PrivateKeyDer::Pkcs8(PrivatePkcs8KeyDer::from(m.server_key.clone())),
        )
        .unwrap();
    Arc::new(cfg)
}

pub fn make_tls_client(sc: &J) -> TlsClient {
    use rustls::pki_types::{CertificateDer, PrivateKeyDer, PrivatePkcs8KeyDer, ServerName};
    let m = tls_material();
    let mut roots = rustls::RootCertStore::empty();
    roots
        .add(CertificateDer::from(m.server_cert.clone()))
        .unwrap();
    let builder = rustls::ClientConfig::builder().with_root_certificates(roots);
    let cfg = if sc["client"]["cert"].as_bool().unwrap_or(false) {
        let chain = client_chain(sc);
        let key = if chain.len() > 1 {
            m.chain_leaf_key.clone()
        } else {
            m.client_key.clone()
        };
        builder
            .with_client_auth_cert(
                chain.into_iter().map(CertificateDer::from).collect(),
                PrivateKeyDer::Pkcs8(PrivatePkcs8KeyDer::from(key)),
            )
            .unwrap()
    } else {
        builder.with_no_client_auth()
    };
    let mut cfg = cfg;
    // optional: inflate the ClientHello with ALPN names (a ClientHello of several KiB)
    let alpn = sc["client"]["alpn_bytes"].as_u64().unwrap_or(0) as usize;
    if alpn > 0 {
        let mut left = alpn;
        let mut i = 0u32;
        while left > 0 {
            let n = std::cmp::min(left, 200);
            let mut name = format!("proto-{:06}-", i).into_bytes();
            name.resize(std::cmp::max(n, name.len()), b'x');
            cfg.alpn_protocols.push(name);
            left -= n;
            i += 1;
        }
    }
    let conn = rustls::ClientConnection::new(
        Arc::new(cfg),
        ServerName::try_from("localhost").unwrap(),
    )
    .unwrap();
    TlsClient {
        conn,
        started: false,
        handshaken: false,
        next_plain: sc["client"]["tls_from"].as_u64().unwrap_or(1) as usize,
        failed: None,
        marks: Vec::new(),
        produced: 0,
        handed: 0,
    }
}
