// Generates `errkinds.rs`: name -> ErrorKind lookup, extracted from the enum declaration in
// /repo/src/errorcodes.rs, so that the harness can name error kinds without going through
// `ErrorKind::from(u16)` (which is itself under test, C13).
use std::env;
use std::fs;
use std::path::Path;

fn main() {
    let src_path = "/repo/src/errorcodes.rs";
    println!("cargo:rerun-if-changed={}", src_path);
    let src = fs::read_to_string(src_path).expect("read errorcodes.rs");
    let mut names = Vec::new();
    let mut in_enum = false;
    for line in src.lines() {
        let t = line.trim();
        if t.starts_with("pub enum ErrorKind") {
            in_enum = true;
            continue;
        }
        if in_enum {
            if t == "}" {
                break;
            }
            if t.starts_with("//") || t.starts_with('#') || t.is_empty() {
                continue;
            }
            // NAME = 1234,
            if let Some(eq) = t.find('=') {
                let name = t[..eq].trim();
                if !name.is_empty() && name.chars().all(|c| c.is_ascii_alphanumeric() || c == '_') {
                    names.push(name.to_string());
                }
            }
        }
    }
    let mut out = String::new();
    out.push_str("pub fn kind_by_name(n: &str) -> Option<msql_srv::ErrorKind> {\n    use msql_srv::ErrorKind::*;\n    Some(match n {\n");
    for n in &names {
        out.push_str(&format!("        \"{}\" => {},\n", n, n));
    }
    out.push_str("        _ => return None,\n    })\n}\n");
    out.push_str("pub const KIND_NAMES: &[&str] = &[\n");
    for n in &names {
        out.push_str(&format!("    \"{}\",\n", n));
    }
    out.push_str("];\n");
    let dest = Path::new(&env::var("OUT_DIR").unwrap()).join("errkinds.rs");
    fs::write(dest, out).unwrap();
}
